#!/usr/bin/env python3-vt
import json, sys, glob, jsonschema
m = json.load(open('/verif/MANIFEST.json'))
jsonschema.validate(m, json.load(open('/root/.vp/MANIFEST.schema.json')))
es = json.load(open('/root/.vp/EVIDENCE.schema.json'))
for c in m['checks']:
    try:
        jsonschema.validate(json.load(open(c['evidence_file'])), es); print('ok', c['evidence_file'])
    except Exception as e:
        print('BAD', c['evidence_file'], str(e)[:300])
ids = {json.loads(l)['id'] for l in open('/verif/properties.jsonl')}
have = {c['property_id'] for c in m['checks']} | {n['property_id'] for n in m.get('not_applicable', [])}
assert ids == have, ids ^ have
print('manifest ok')
