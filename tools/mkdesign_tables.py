#!/usr/bin/env python3
"""Regenerate the data-driven tables of DESIGN.md section 0 (repairs, known findings, seeded changes) from
known_findings.json, seeded/*/meta.json and the fix: commits of /repo.  Text between the BEGIN/END markers is replaced."""
import glob
import json
import os
import re
import subprocess

V = os.path.dirname(os.path.dirname(os.path.abspath(__file__)))
d = json.load(open(os.path.join(V, "known_findings.json")))["findings"]
log = subprocess.run(["git", "-C", "/repo", "log", "--reverse", "--format=%h %s"], capture_output=True, text=True).stdout.splitlines()
fixes = [l.split(" ", 1) for l in log if l.split(" ", 1)[1].startswith("fix:")]
by_commit = {}
for f in d:
    if f["status"] == "fixed":
        by_commit.setdefault(f.get("commit", "")[:7], []).append(f["property"])
rows = ["| commit | message | found by |", "|---|---|---|"]
for h, msg in fixes:
    rows.append(f"| `{h}` | {msg} | {', '.join(sorted(set(by_commit.get(h[:7], ['?']))))} |")
fix_tbl = "\n".join(rows)
rows = ["| finding | what fails | why recorded, not repaired / where |", "|---|---|---|"]
for f in d:
    if f["status"] == "known":
        rows.append(f"| `{f['name']}` | {f['what']} | {f.get('guard', '')} |")
known_tbl = "\n".join(rows)
rows = ["| seeded change | property | what it needs in order to manifest | result |", "|---|---|---|---|"]
for m in sorted(glob.glob(os.path.join(V, "seeded", "*", "meta.json"))):
    o = json.load(open(m))
    name = os.path.basename(os.path.dirname(m))
    rows.append(f"| `{name}` | {o['property']} | {o['needs_to_manifest']} | {o['ran']} |".replace("\n", " "))
seed_tbl = "\n".join(rows)
p = os.path.join(V, "DESIGN.md")
s = open(p).read()
for tag, tbl in (("fixes", fix_tbl), ("known", known_tbl), ("seeded", seed_tbl)):
    pat = re.compile(rf"(<!-- BEGIN:{tag} -->\n).*?(\n<!-- END:{tag} -->)", re.S)
    assert pat.search(s), tag
    s = pat.sub(lambda m: m.group(1) + tbl + m.group(2), s)
open(p, "w").write(s)
print(len(fixes), "fix commits;", sum(1 for f in d if f["status"] == "known"), "known;", sum(1 for f in d if f["status"] == "fixed"), "fixed;", len(rows) - 2, "seeded")
