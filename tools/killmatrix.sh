#!/bin/sh
# usage: tools/killmatrix.sh [name ...]      (default: every directory under /verif/seeded)
# Runs the quick check of the property each seeded change targets against a scratch worktree with the change applied and
# prints one line per change: "<name> <property> caught|MISSED|n/a exit=<rc>".  The result table is written to
# seeded/MATRIX.txt.  Nothing is applied to /repo.
cd /verif || exit 2
[ $# -eq 0 ] && set -- $(ls seeded | grep -v -e MATRIX -e neutralised)
OUT=seeded/MATRIX.txt; : > "$OUT.new"
for name in "$@"; do
  d=seeded/$name; [ -f "$d/patch.diff" ] || continue
  prop=$(python3 -c "import json,sys; print(json.load(open('$d/meta.json'))['property'])")
  res=$(SKIP_TESTS=1 tools/seedtest.sh "$d/patch.diff" - "$prop" quick 2>&1)
  rc=$(printf '%s\n' "$res" | sed -n 's/^check exit: //p')
  case "$rc" in 1) v=caught;; 0) v=MISSED;; *) v="n/a";; esac
  printf '%s %s %s exit=%s\n' "$name" "$prop" "$v" "$rc" | tee -a "$OUT.new"
  rm -f "$d/patch.eff.diff"
done
mv "$OUT.new" "$OUT"
