#!/bin/sh
# usage: tools/sys_matrix.sh name...   which seeded changes do the composite specification's behaviours (props/sysmodel.py) catch?
cd /verif || exit 2
for name in "$@"; do
  d=/verif/seeded/$name; [ -f "$d/patch.diff" ] || continue
  WT=$(mktemp -d /tmp/syswt.XXXXXX); rmdir "$WT"
  git -C /repo worktree add -q --detach "$WT" HEAD || continue
  if git -C "$WT" apply "$d/patch.diff" 2>/dev/null || git -C "$WT" apply --3way "$d/patch.diff" 2>/dev/null; then
    VERIF_REPO="$WT" VERIF_QUIET=1 VERIF_NO_SELFTEST=1 VERIF_NPROC=${VERIF_NPROC:-6} ./vcheck sysmodel --tier quick > "$WT.log" 2>&1; rc=$?
    printf '%s exit=%s %s\n' "$name" "$rc" "$(grep -A1 VIOLATION "$WT.log" | grep 'at step' | head -1 | cut -c1-150)"
  else
    echo "$name does-not-apply"
  fi
  rm -f "$WT.log"; git -C /repo worktree remove --force "$WT" 2>/dev/null; rm -rf "$WT"
done
