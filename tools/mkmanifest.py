#!/usr/bin/env python3
"""Regenerate MANIFEST.json from the table below (claimed checks) + properties.jsonl (everything else is not_applicable)."""
import json
import os

V = os.path.dirname(os.path.dirname(os.path.abspath(__file__)))
TB = ("trusted: TLC 1.8.0 + CommunityModules; the Python driver/projection code under /verif/props and /verif/harness; "
      "DuckDB as storage for the raw observation cursor; bounds of the model as stated in the evidence file")

CLAIMS = {
    "C05": dict(
        spec="FsCursor.tla / FsCursorGen.tla / FsCursorJudge.tla",
        text="TLC model-checks the fetch-protocol specification (ExactlyOnce, Drained, NoResult, Replace, Monotone, per-step "
        "clauses) exhaustively for small bounds, generates every transition, every operation sequence up to a bounded length "
        "and thousands of random walks, each of which is replayed on the real FakeSnowflakeCursor (tuple and dict cursors, "
        "six result shapes) and judged step by step by TLC against the specification.",
        design="6 C05",
        technique="explicit TLA+ spec + TLC model checking; TLC-generated behaviours replayed on the code and judged by TLC (trace validation)",
    ),
    "C04": dict(
        spec="FsData.tla / FsDataGen.tla / FsDataJudge.tla",
        text="TLC model-checks the DML specification (bags of rows, three-valued predicates, true counts, bystander untouched) "
        "exhaustively for small tables and the full predicate grammar, generates the transition cover and random histories, "
        "replays each on real connections (status row, description names, rowcount, both tables read through a raw DuckDB "
        "cursor after every statement) and judges every step with TLC against the specification; DDL status messages are "
        "judged at every qualification level and spelling.",
        design="6 C04",
        technique="explicit TLA+ spec + TLC model checking; TLC-generated histories replayed on the code and judged by TLC (trace validation)",
    ),
    "C15": dict(
        spec="FsVars.tla / FsVarsGen.tla / FsVarsJudge.tla",
        text="TLC model-checks the session-variable specification (value of a reference = last SET of exactly that folded name on "
        "that connection; string literals untouched; undefined => error and stutter; per connection) and generates the transition "
        "cover, all operation sequences up to a bounded length over a tiny vocabulary, and random histories over prefix-related "
        "names, three spellings, two connections and two kinds of cursors; each is replayed on the real code and judged by TLC.",
        design="6 C15",
        technique="explicit TLA+ spec + TLC model checking; TLC-generated histories replayed on the code and judged by TLC (trace validation)",
    ),
    "C14": dict(
        spec="FsConnect.tla / FsConnectGen.tla / FsConnectJudge.tla",
        text="TLC model-checks connect() over the complete product of argument presence x letter case x both auto-create flags x "
        "storage mode (memory, empty db_path, db_path with an earlier instance's files) x prior catalog x connection order "
        "(up to three sessions); every transition of that graph is replayed on a real FakeSnow instance (outcome, reported "
        "names, 90105/90106 probe, raw catalog, files on disk, every earlier session re-observed) and judged by TLC.",
        design="6 C14",
        technique="explicit TLA+ spec + TLC model checking (exhaustive over the configuration product); transitions replayed on the code and judged by TLC",
    ),
    "C20": dict(
        spec="FsPatch.tla / FsPatchGen.tla / FsPatchJudge.tla",
        text="TLC model-checks the patch() state machine (Restored for every way of leaving incl. failure during setup, nesting "
        "refused without damage, re-entry, connections closed) and enumerates the argv grammar <options>* <target> <args>*; "
        "every transition and bounded operation sequence is replayed in a forked child process against the real patch() and "
        "cli.main() (targets observed by identity, connections probed, sys.argv dumped by a stub target) and judged by TLC.",
        design="6 C20",
        technique="explicit TLA+ spec + TLC model checking; TLC-generated behaviours replayed on the code in child processes and judged by TLC",
    ),
    "C03": dict(
        spec="FsSession.tla / FsSessionGen.tla / FsSessionJudge.tla",
        text="TLC model-checks the session-context specification (Agree: reported = effective = CURRENT_*; ResolveFQ; Frame; "
        "90105/90106 exactly when context is missing; failing statements change nothing) over 2 databases x 2 schemas x 2 "
        "connections, generates transition covers, a bounded path cover and progress-biased walks, replays them on two real "
        "connections (conn.database/schema, CURRENT_*(), marker-row probes at three qualification levels, raw catalog after every "
        "step, for both connections) and judges every step with TLC; as-built aftermath of the two recorded deviations is modelled.",
        design="6 C03",
        technique="explicit TLA+ spec + TLC model checking; TLC-generated histories replayed on the code and judged by TLC (trace validation)",
    ),
    "C13": dict(
        spec="FsTxn.tla / FsTxnGen.tla / FsTxnJudge.tla",
        text="TLC model-checks the transaction specification (Atomic/NoTrace, Isolation = committed + own pending through every "
        "cursor, sticky to the connection, no-op COMMIT/ROLLBACK with the status row, failing statements change nothing) over "
        "two connections, explores all statement-level interleavings to a bounded depth, and replays transition cover, bounded "
        "path cover and progress-biased walks on two real connections (INSERT and MERGE renderings, SQL and conn.commit()/"
        "rollback() forms, long-lived and fresh cursors); every step is judged by TLC.",
        design="6 C13",
        technique="explicit TLA+ spec + TLC model checking of interleavings; TLC-generated schedules replayed on the code and judged by TLC",
    ),
    "C12": dict(
        spec="FsMerge.tla / FsMergeGen.tla / FsMergeJudge.tla",
        text="MergeIdeal (Snowflake's documented semantics for deterministic merges) and a transcription of the as-built "
        "explosion are both TLA+ operators; TLC model-checks the ideal (result, true counts, source untouched, no helper) over the "
        "bounded product target x source x clause list, shows that each recorded deviation violates it, and enumerates the "
        "product; sampled and covering subsets are replayed on real connections in seven render forms and two keyword cases "
        "(target, source and a decoy table read through a raw cursor) and every step is judged by TLC.",
        design="6 C12",
        technique="explicit TLA+ spec (ideal + as-built transcription) + TLC; TLC-enumerated cases replayed on the code and judged by TLC",
    ),
    "C16": dict(
        spec="FsScript.tla / FsScriptGen.tla / FsScriptJudge.tla",
        text="TLC model-checks the script specification (results and effects of execute_string = those of one-by-one execution, "
        "comments / empty statements ignored, stop at the first failure with the prefix applied, a no-op'd statement is a stutter "
        "step, non-matching statements behave as without the option), enumerates scripts of up to three items over nine literal "
        "payload classes and both cursor classes, and replays them (whitespace, comment text and final semicolon varied by seed) "
        "through execute_string and through single executes on real connections, with and without nop_regexes; judged by TLC.",
        design="6 C16",
        technique="explicit TLA+ spec + TLC model checking; TLC-enumerated scripts replayed on the code both ways and judged by TLC",
    ),
    "C07": dict(
        spec="FsErrors.tla / FsErrorsGen.tla / FsErrorsJudge.tla",
        text="TLC model-checks the failure specification (ErrClass: only the Snowflake errors of the property's table, 90105/90106 "
        "exactly when context is missing; FailFrame: a failing statement is a stutter on data, catalog, context, variables and "
        "pending transaction work; sqlstate lifecycle; closed connection => 250002/08003) over session state x transaction x "
        "variable x 33 failure causes x qualification level x cursor (incl. cursor.describe), generates every transition and "
        "walks with interleaved failures, replays them on real connections (state re-observed after every step through other "
        "cursors and a raw engine cursor) and judges every step with TLC.",
        design="6 C07",
        technique="explicit TLA+ spec + TLC model checking; TLC-generated histories replayed on the code and judged by TLC (trace validation)",
    ),
    "C08": dict(
        spec="FsParams.tla / FsParamsGen.tla / FsParamsJudge.tla",
        text="TLC model-checks the parameter specification (Bind == Literal: a bound value reads back / matches as itself, the "
        "statement keeps its shape, nothing else is touched; the paramstyle is the connect-time snapshot) and enumerates the case "
        "space paramstyle x passing form x position x 27 value classes x cursor, plus sequences of binds on one cursor; each case "
        "is concretised from an edge list by seed, executed on a real connection and judged by TLC.",
        level="model_checking",
        design="6 C08",
        technique="explicit TLA+ spec + TLC enumeration of the abstract case space; cases replayed on the code and judged by TLC (values inside a class are sampled)",
    ),
    "C06": dict(
        spec="FsDescr.tla / FsDescrGen.tla / FsDescrJudge.tla",
        text="TLC model-checks the description specification (Available after every execute; one entry per column with the "
        "Snowflake type code / precision / scale of the declared type; Python classes of fetched values agree; describe(q) = "
        "description after execute(q) without executing; reading description is a stutter step) over 44 statement kinds x the "
        "fetch position, incl. a query whose shape changes with DDL and transactions; every transition, all operation sequences "
        "over small vocabularies and random walks are replayed on a real DictCursor and judged by TLC.",
        design="6 C06",
        technique="explicit TLA+ spec + TLC model checking; TLC-generated histories replayed on the code and judged by TLC (trace validation)",
    ),
    "C10": dict(
        spec="FsFuncs.tla / FsFuncsGen.tla / FsFuncsJudge.tla",
        text="The documented rules are TLA+ operators (proleptic Gregorian calendar, DATEADD month clamping, DATEDIFF boundary "
        "counting, round-half-away TO_DECIMAL with overflow, EQUAL_NULL, TRIM family, REGEXP_SUBSTR / REGEXP_REPLACE over three "
        "pattern shapes, VALUES naming, ARRAY_AGG ordering) plus value-free relations (SHA2 variants and FIPS vectors, seeded "
        "RANDOM / SAMPLE determinism, IDENTIFIER, join alias reuse). TLC checks consistency theorems of the oracle, enumerates "
        "the argument grids x expression contexts, every case is run on the code and judged by TLC; the calendar and rounding "
        "operators are first cross-checked against Python's datetime / decimal on the whole grid.",
        design="6 C10 (pure-function exception of the method)",
        technique="rules transcribed into TLA+ operators, TLC enumerates the case space, one implementation run per case judged by TLC",
    ),
    "C11": dict(
        spec="FsJson.tla / FsJsonGen.tla / FsJsonJudge.tla",
        text="JSON documents are recursive TLA+ values; Get / casts / UPPER-LOWER-TRIM / ARRAY_SIZE / OBJECT_CONSTRUCT / "
        "ARRAY_CONSTRUCT / SPLIT / FLATTEN / operator contexts are TLA+ operators ('what navigating the same document gives'). "
        "TLC enumerates documents x paths (present, missing, wrong kind) x access syntax x cast x wrapper x source x operator, "
        "each case is run on the code (table column and PARSE_JSON literal) and judged by TLC after parsing the JSON text.",
        design="6 C11 (pure-function exception of the method)",
        technique="rules transcribed into TLA+ operators, TLC enumerates the case space, one implementation run per case judged by TLC",
    ),
    "C01": dict(
        spec="FsTypes.tla / FsTypesGen.tla / FsTypesJudge.tla",
        text="Store ; Read is the identity: TLC enumerates type x ingestion path x value class x NULL placement x row count (3 081 "
        "cases), each is concretised from edge lists, written through the path and read back through fetchall, fetch_pandas_all "
        "and a raw engine cursor; equality (bit patterns for floats, parsed JSON, instants for TIMESTAMP_TZ), the Python class "
        "of the cells and the bystander table are judged by TLC against the type table of the specification.",
        design="6 C01 (pure-function exception of the method)",
        technique="type table and case space in TLA+, TLC enumerates the cases, one implementation run per case judged by TLC (values inside a class are sampled)",
    ),
    "C17": dict(
        spec="FsServer.tla / FsServerGen.tla / FsServerJudge.tla",
        text="TLC model-checks the server specification (sessions by token with their own database and variables, shared vs "
        "isolated data visibility, 401 frame condition, a query = the in-process step) and generates login / query histories "
        "over up to three tokens, every statement kind in both login modes and repeated statements with DDL in between; they "
        "are replayed against a real uvicorn server through the real connector with a mirrored in-process connection, and TLC "
        "judges visibility, variables, 401 answers and the agreement of rows / classes / description / rowcount / error. All "
        "10^6 microsecond fractions x 4 epochs x {NTZ, TZ} are pushed through the Arrow struct encoder against the closed form.",
        design="6 C17",
        quick="VERIF_NPROC=8 ./vcheck C17 --tier quick", thorough="VERIF_NPROC=8 ./vcheck C17 --tier thorough",
        technique="explicit TLA+ spec + TLC model checking; TLC-generated request histories replayed over HTTP and judged by TLC; exhaustive fraction sweep",
    ),
    "C18": dict(
        spec="FsPersist.tla / FsPersistGen.tla / FsPersistJudge.tla",
        text="The specification defines Durable(history, j) (committed state after j statements, transactions included) and the set "
        "of states a second process may find: after a clean exit or an exception exactly Durable(n); after a kill while statement "
        "j+1 was running Durable(j) or Durable(j+1) - never anything in between (StatementAtomic), never uncommitted work; in-memory "
        "instances leave no file. TLC enumerates histories x every kill point between engine calls x exit modes x spelling of "
        "the database name; a forked child process runs each on a real db_path instance (SIGKILL through the engine proxy), the "
        "parent reopens the path and reads tables, rows, comments and VARCHAR lengths; TLC judges the recovered state.",
        level="fault_enumeration",
        design="6 C18",
        technique="explicit TLA+ spec of durable state; TLC enumerates histories x kill points; fault injection at every engine-call boundary in a child process, recovered state judged by TLC",
    ),
    "C19": dict(
        spec="FsConc.tla / FsConcGen.tla / FsConcJudge.tla",
        text="Interleaving model: two sessions, each statement is the sequence of its engine calls (as-built decomposition of connect and of "
        "CREATE TABLE with metadata); TLC explores every interleaving and checks NoError, NoHalfDone and Serializable - it finds the "
        "check-then-create race of the tree before the fix and the half-done metadata of the current tree. Schedules with at most two "
        "preemptions (who starts, where each is preempted) are enumerated by TLC for eight script pairs and replayed with real threads "
        "under a deterministic scheduler that hands over exactly at engine-call boundaries (engine proxy); errors, hangs, lost "
        "inserts, half-done observations and the final catalog are judged by TLC against the serial outcome. Thorough adds "
        "free-running 16-thread runs (exploration).",
        design="6 C19",
        quick="VERIF_NPROC=8 ./vcheck C19 --tier quick", thorough="VERIF_NPROC=8 ./vcheck C19 --tier thorough",
        technique="explicit TLA+ interleaving model checked by TLC; TLC-enumerated bounded-preemption schedules replayed deterministically on real threads and judged by TLC",
    ),
    "C02": dict(
        spec="FsIdent.tla / FsIdentGen.tla / FsIdentJudge.tla",
        text="The fold rule is a TLA+ operator; TLC model-checks that references with equal folds find the object, that every "
        "channel reports the fold of the creation spelling and that results are independent of the keyword case, and enumerates "
        "object kind x creation spelling x reference spelling x statement kind x keyword case x reporting channel; each "
        "case runs on the code and is judged by TLC. In addition behaviours of C03, C04, C13, C15 and C16 are executed a second "
        "time with every SQL statement re-spelled (keywords and unquoted identifiers in another letter case) and the recorded "
        "traces must be identical.",
        design="6 C02",
        technique="fold rule in TLA+, TLC enumerates spelling pairs, cases judged by TLC; metamorphic re-run of other properties' TLC-generated behaviours under re-spelling",
    ),
    "C09": dict(
        spec="FsCatalog.tla / FsCatalogGen.tla / FsCatalogJudge.tla",
        text="The catalog (schemas, tables / views with ordered typed columns, NOT NULL, comments) is explicit TLA+ state; every metadata "
        "view (information_schema.tables / columns / views / databases, DESCRIBE, SHOW TABLES / OBJECTS per scope, SHOW SCHEMAS, SHOW "
        "PRIMARY KEYS, description of SELECT *) is an operator over it, so Consistent, NoGhosts and NoInternals hold by construction and "
        "are model-checked; the as-built side tables (_fs_tables_ext, _fs_columns_ext) are modelled next to it and TLC shows that "
        "reading them violates the property. DDL histories with reads in between (sampled transition cover + walks) run on the code, "
        "with a decoy database of equal names; TLC judges every read.",
        design="6 C09",
        technique="explicit TLA+ spec + TLC model checking; TLC-generated DDL histories replayed on the code, every metadata view judged by TLC (trace validation)",
    ),
}


def main():
    props = [json.loads(l) for l in open(os.path.join(V, "properties.jsonl"))]
    checks = []
    for pid, c in CLAIMS.items():
        c = dict(c)
        if pid in SYSTEM:
            c["text"] += (" In addition the behaviours of the composite specification FsSystem.tla (two sessions in which current "
                          "schema, DML incl. UPDATE / multi-row INSERT / failing executemany, statements failing for what they name or "
                          "for their shape, transactions, session variables, execute_string scripts, no-op'd statements, DDL on a second "
                          "table seen through three catalog views, a result set held open on its cursor, and an instance on a db_path "
                          "shut down and opened again meet; the whole projected state is observed through both connections after every "
                          "step) are replayed on the code, judged by TLC, and the rejected steps attributed to this property are reported.")
            c["technique"] += "; behaviours of the composite TLA+ specification replayed and judged by TLC"
        if pid == "C17":
            c["text"] += (" In addition the walks of the composite specification FsSystem.tla are driven through the HTTP server with "
                          "the real connector (two logins to the shared instance) and, the same walks, in process; the whole projected "
                          "state is observed through both sessions after every step and judged by TLC; a step rejected over HTTP in a "
                          "behaviour accepted in process is reported.")
            c["technique"] += "; walks of the composite TLA+ specification replayed over HTTP and in process, judged by TLC"
        if pid == "C18":
            c["text"] += (" In addition walks of the composite specification FsSystem.tla run on an instance with a db_path that is shut "
                          "down and opened again every sixth operation (open transactions, pending DDL and open results included): "
                          "what was committed is found and usable, nothing else is; judged by TLC step by step.")
            c["technique"] += "; walks of the composite TLA+ specification with shut-down / re-open steps replayed and judged by TLC"
        if pid in PASSIVE:
            c["text"] += (" The executions of the repository's own test-suite, recorded passively (one event per public call), are "
                          "validated step by step by TLC against this property's clauses of the composite trace specification FakeSnow.tla.")
            c["technique"] += "; trace validation of the recorded repository test-suite against the composite TLA+ trace specification"
        checks.append({
            "property_id": pid,
            "quick_cmd": c.get("quick", f"./vcheck {pid} --tier quick"),
            "thorough_cmd": c.get("thorough", f"./vcheck {pid} --tier thorough"),
            "evidence_file": f"/verif/evidence/{pid}.json",
            "replay_cmd_template": f"./vcheck {pid} --replay {{path}}",
            "engine": "tlc",
            "level_claimed": {"category": c.get("level", "model_checking"), "text": c["text"], "design_ref": "DESIGN.md section " + c["design"]},
            "level_note": c.get("note", TB),
            "technique": c["technique"],
        })
    na = [{"property_id": p["id"], "reason": NA.get(p["id"], "not yet claimed: check under construction (DESIGN.md section 6)")}
          for p in props if p["id"] not in CLAIMS]
    m = {
        "version": 1,
        "setup_cmd": "./setup.sh",
        "hooks": {
            "guard": "FAKESNOW_VERIF",
            "enable": "no source hooks: checks wrap the public API and proxy the DuckDB connection from outside "
                      "(DESIGN.md 4.1); FAKESNOW_VERIF is read only by harness code",
            "baseline_off_cmd": "cd /repo && /venv/bin/python -m pytest -ra -q -p no:cacheprovider --timeout=900 --continue-on-collection-errors",
            "source_commits": [],
            "add_only": True,
        },
        "engines": [{"name": "tlc", "path": "/verif/vcheck", "serves_properties": sorted(CLAIMS),
                     "kind_free_text": "TLA+ specifications under /verif/spec checked, enumerated and used as trace judge by TLC; Python drivers under /verif/props"}],
        "checks": checks,
        "notes": "exit 2 from a check means machinery failure (TLC error, vacuous model check, driver exception), never a verdict",
        "not_applicable": na,
    }
    json.dump(m, open(os.path.join(V, "MANIFEST.json"), "w"), indent=1)
    print("claimed:", sorted(CLAIMS), "not claimed:", len(na))


NA = {}
SYSTEM = {"C03", "C04", "C05", "C06", "C07", "C09", "C13", "C15", "C16"}     # harness/core.py SYSTEM_PROPS (C18: its own text)
PASSIVE = {"C03", "C04", "C05", "C06", "C07"}                  # harness/core.py PASSIVE_PROPS

if __name__ == "__main__":
    main()
