#!/venv/bin/python
"""tools/passive_matrix.py [name ...]: which seeded changes does the composite specification catch on the repository's own
test executions alone?  One scratch worktree per change (removed afterwards); prints '<name> <clauses or ->'."""
import json, os, subprocess, sys, tempfile
from concurrent.futures import ThreadPoolExecutor
sys.path.insert(0, os.path.dirname(os.path.dirname(os.path.abspath(__file__))))
from harness import passive

def one(name):
    d = f"/verif/seeded/{name}"
    wt = tempfile.mkdtemp(prefix="pmwt.", dir="/tmp"); os.rmdir(wt)
    subprocess.run(["git", "-C", "/repo", "worktree", "add", "-q", "--detach", wt, "HEAD"], check=True)
    try:
        r = subprocess.run(["git", "-C", wt, "apply", f"{d}/patch.diff"], capture_output=True)
        if r.returncode:
            r = subprocess.run(["git", "-C", wt, "apply", "--3way", f"{d}/patch.diff"], capture_output=True)
            if r.returncode:
                return name, "does-not-apply"
        tr, info = passive.record_suite(wt, nproc=4)
        v = passive.judge(tr, workers=2)
        cl = sorted({c for bad in v.values() for b in bad for c in b["clauses"]})
        return name, (",".join(cl) or "-") + f" passed={info['passed']}"
    finally:
        subprocess.run(["git", "-C", "/repo", "worktree", "remove", "--force", wt])

names = sys.argv[1:] or sorted(n for n in os.listdir("/verif/seeded") if os.path.exists(f"/verif/seeded/{n}/patch.diff"))
with ThreadPoolExecutor(3) as ex:
    for name, res in ex.map(one, names):
        print(name, res, flush=True)
