#!/bin/sh
# usage: tools/seedround.sh <dir with patch_X.diff / demo_X.py> <PROP> [letters...]
# Confirms each proposed change (tests + demonstration) and runs the property's quick check against it.
D=$1; P=$2; shift 2
[ $# -eq 0 ] && set -- a b c
for x in "$@"; do
  [ -f "$D/patch_$x.diff" ] || continue
  echo "=== $P $x"
  demo="$D/demo_$x.py"; [ -f "$demo" ] || demo=-
  /verif/tools/seedtest.sh "$D/patch_$x.diff" "$demo" "$P" quick 2>&1 | cut -c1-300
done
