#!/usr/bin/env python3
"""keep_seed.py <name e.g. C05a> <property> <patch> <demo> <needs> <ran/outcome>: store a confirmed seeded change under /verif/seeded/<name>/"""
import json, os, shutil, sys
name, prop, patch, demo, needs, ran = sys.argv[1:7]
d = os.path.join(os.path.dirname(os.path.dirname(os.path.abspath(__file__))), "seeded", name)
os.makedirs(d, exist_ok=True)
shutil.copy(patch, os.path.join(d, "patch.diff"))
if demo != "-":
    shutil.copy(demo, os.path.join(d, "demo.py"))
json.dump({"property": prop, "needs_to_manifest": needs, "ran": ran,
           "confirmed": "repository tests: 196 passed / same 2 always-fail with the patch; demo exits 0 without and non-zero with the patch"},
          open(os.path.join(d, "meta.json"), "w"), indent=1)
print("kept", d)
