#!/bin/sh
# usage: tools/seedtest.sh <patch.diff> <demo.py|-> <PROP> [tier]
# Applies a seeded change to a scratch worktree of /repo HEAD, confirms the repository tests still pass and that the
# demonstration fails with / passes without the change, then runs the property's check against the worktree.
# The worktree is removed afterwards.
set -u
PATCH=$(realpath "$1"); DEMO=$2; PROP=$3; TIER=${4:-quick}
WT=$(mktemp -d /tmp/seedwt.XXXXXX); rmdir "$WT"
git -C /repo worktree add -q --detach "$WT" HEAD || exit 2
cleanup() { git -C /repo worktree remove --force "$WT" 2>/dev/null; rm -rf "$WT"; }
trap cleanup EXIT
if [ "$DEMO" != "-" ]; then
  DEMO=$(realpath "$DEMO")
  (cd /tmp && PYTHONPATH="$WT" /venv/bin/python "$DEMO" >/dev/null 2>&1); echo "demo on pristine HEAD: exit $?"
fi
git -C "$WT" apply "$PATCH" 2>/dev/null || git -C "$WT" apply --3way "$PATCH" || { echo "PATCH DOES NOT APPLY"; exit 2; }
git -C "$WT" diff > "${PATCH%.diff}.eff.diff"   # the change as it applies to the current HEAD
if [ "${SKIP_TESTS:-0}" != "1" ]; then
  (cd "$WT" && PYTHONPATH="$WT" /venv/bin/python -m pytest -q -p no:cacheprovider --timeout=900 tests 2>&1 | tail -1)
fi
if [ "$DEMO" != "-" ]; then
  (cd /tmp && PYTHONPATH="$WT" /venv/bin/python "$DEMO" >/dev/null 2>&1); echo "demo with patch: exit $?"
fi
[ "${SKIP_CHECK:-0}" = "1" ] && exit 0
cd /verif && VERIF_REPO="$WT" VERIF_QUIET=1 ./vcheck "$PROP" --tier "$TIER" > "$WT.log" 2>&1; rc=$?
grep -E "VIOLATION|KNOWN-FINDING|MACHINERY|violations=" "$WT.log" | head -6; rm -f "$WT.log"
echo "check exit: $rc"
