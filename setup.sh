#!/bin/sh
# offline setup: create scratch dirs and parse every specification once
set -e
cd "$(dirname "$0")"
mkdir -p .work evidence replays
for f in spec/*.tla; do
  [ -f "$f" ] || continue
  (cd spec && tla-sany "$(basename "$f")" >/dev/null 2>&1) || { echo "SANY failed: $f"; (cd spec && tla-sany "$(basename "$f")" | tail -20); exit 1; }
done
echo setup ok
