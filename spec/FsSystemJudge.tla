---------------------------- MODULE FsSystemJudge ----------------------------
EXTENDS FsSystem, Json, IOUtils
VARIABLES tid, i, st, verdict, devs
NormObs(op, o) == o
NormOp(op) == op
Traces == ndJsonDeserialize(IOEnv.TRACE_FILE)
KnownSeq == JsonDeserialize(IOEnv.KNOWN_FILE).known
Known == {n \in AllDevs : \E j \in 1..Len(KnownSeq) : KnownSeq[j] = n}
J == INSTANCE Judge
JInit == J!JInit
JNext == J!JNext
=============================================================================
