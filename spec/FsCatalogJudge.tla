---------------------------- MODULE FsCatalogJudge ---------------------------
EXTENDS FsCatalog, Json, IOUtils
VARIABLES tid, i, st, verdict, devs
\* listings arrive as JSON arrays: the set-valued views are rebuilt as sets
SetReads == {"ist", "show", "isv", "showsc", "isd", "pk"}
NormObs(op, o) == IF op.k \in SetReads THEN [o EXCEPT !.v = SeqToSet(@)] ELSE o
NormOp(op) == IF "key" \in DOMAIN op THEN (IF "src" \in DOMAIN op THEN [op EXCEPT !.key = <<@[1], @[2]>>, !.src = <<@[1], @[2]>>] ELSE [op EXCEPT !.key = <<@[1], @[2]>>]) ELSE op
Traces == ndJsonDeserialize(IOEnv.TRACE_FILE)
KnownSeq == JsonDeserialize(IOEnv.KNOWN_FILE).known
Known == {n \in AllDevs : \E j \in 1..Len(KnownSeq) : KnownSeq[j] = n}
J == INSTANCE Judge
JInit == J!JInit
JNext == J!JNext
=============================================================================
