------------------------------- MODULE FsDescr -------------------------------
(* C06 - cursor.description matches the result of every executed statement.  *)
(*                                                                           *)
(* A cursor over a table ty with one column per supported type.  After       *)
(* exec(kind) the description is Desc(kind): one entry per result column,    *)
(* <<name, Snowflake type code, precision, scale>> (-1 = None, -2 = not      *)
(* determined by the property), whose classes agree with the Python values   *)
(* fetched (Py(kind)).  describe(kind) yields the same without executing;    *)
(* reading description is a stutter step.                                    *)
EXTENDS FsBase

AllDevs == {"C06.fixed_scale0_fetched_as_decimal", "C06.describe_non_query_unsupported",
            "C06.seeded_random_describes_setseed", "C06.description_unavailable"}

\* type codes of the Snowflake connector: FIXED 0, REAL 1, TEXT 2, DATE 3, VARIANT 5, TIMESTAMP_TZ 7, TIMESTAMP_NTZ 8,
\* OBJECT 9, ARRAY 10, BINARY 11, TIME 12, BOOLEAN 13
ColKinds == {"n", "n10", "n102", "n2012", "i", "f", "s", "s5", "b", "dt", "tm", "ts", "tz", "bin", "v", "o", "ar"}
ColDesc(k) ==
  CASE k = "n"    -> <<"N", 0, 38, 0>>      [] k = "n10" -> <<"N10", 0, 10, 0>>  [] k = "n102" -> <<"N102", 0, 10, 2>>
    [] k = "n2012" -> <<"N2012", 0, 20, 12>>
    [] k = "i"    -> <<"I", 0, 38, 0>>      [] k = "f"   -> <<"F", 1, -1, -1>>    [] k = "s"    -> <<"S", 2, -1, -1>>
    [] k = "s5"   -> <<"S5", 2, -1, -1>>    [] k = "b"   -> <<"B", 13, -1, -1>>   [] k = "dt"   -> <<"DT", 3, -1, -1>>
    [] k = "tm"   -> <<"TM", 12, 0, 9>>     [] k = "ts"  -> <<"TS", 8, 0, 9>>     [] k = "tz"   -> <<"TZ", 7, 0, 9>>
    [] k = "bin"  -> <<"BIN", 11, -1, -1>>  [] k = "v"   -> <<"V", 5, -1, -1>>
    [] k = "o"    -> <<"O", -2, -1, -1>>    [] k = "ar"  -> <<"AR", -2, -1, -1>>   \* OBJECT / ARRAY codes: not in the property's list
ColPy(k) ==
  CASE k \in {"n", "n10", "i"} -> "int" [] k \in {"n102", "n2012"} -> "Decimal" [] k = "f" -> "float" [] k \in {"s", "s5", "v", "o", "ar"} -> "str"
    [] k = "b" -> "bool" [] k = "dt" -> "date" [] k = "tm" -> "time" [] k \in {"ts", "tz"} -> "datetime" [] k = "bin" -> "bytes"
Status == << <<"status", 2, -1, -1>> >>
\* "dup": two result columns of the same name and different types (SELECT i, s AS i): one entry per result COLUMN, in order
\* "litsemi": a text literal holding "; " (statement separators inside literals are data)
QueryKinds == ColKinds \cup {"two", "dup", "count", "litstr", "litsemi", "param", "random", "sample", "starzz"}
DmlKinds == {"ins", "upd", "del", "merge"}
StatusKinds == {"createt", "alter", "dropt", "createv", "createsc", "usesc", "usedb", "begin", "commit", "rollback", "setv", "unsetv",
                "call", "truncate"}
MetaKinds == {"show_tables", "show_schemas", "describe_table"}
Kinds == QueryKinds \cup DmlKinds \cup StatusKinds \cup MetaKinds
\* "starzz" is SELECT * FROM zz: its shape depends on the catalog (ALTER TABLE zz ADD COLUMN j) - see DescIn below
Desc(k) ==
  IF k \in ColKinds THEN <<ColDesc(k)>>
  ELSE CASE k = "two"    -> <<ColDesc("n102"), ColDesc("s")>>
         [] k = "dup"    -> <<ColDesc("i"), <<"I", 2, -1, -1>> >>
         [] k = "count"  -> << <<"C", 0, -2, 0>> >>
         [] k \in {"litstr", "litsemi"} -> << <<"A", 2, -1, -1>> >>
         [] k = "param"  -> <<ColDesc("s")>>
         [] k = "random" -> << <<"R", 0, -2, 0>> >>
         [] k = "sample" -> <<ColDesc("i")>>
         [] k = "starzz" -> << <<"I", 0, 38, 0>> >>
         [] k = "ins"    -> << <<"number of rows inserted", 0, -2, 0>> >>
         [] k = "upd"    -> << <<"number of rows updated", 0, -2, 0>>, <<"number of multi-joined rows updated", 0, -2, 0>> >>
         [] k = "del"    -> << <<"number of rows deleted", 0, -2, 0>> >>
         [] k = "merge"  -> << <<"number of rows inserted", 0, -2, 0>> >>
         [] k \in StatusKinds -> Status
         [] k \in MetaKinds -> <<>>          \* only the structural clauses are judged (one entry per column, names = keys)
Py(k) ==
  IF k \in ColKinds THEN <<ColPy(k)>>
  ELSE CASE k = "two" -> <<"Decimal", "str">> [] k = "dup" -> <<>> [] k = "upd" -> <<"int", "int">> [] k = "starzz" -> <<>>
         [] k \in {"count", "random", "sample", "ins", "del", "merge"} -> <<"int">>
         [] k \in {"litstr", "litsemi", "param"} \cup StatusKinds -> <<"str">> [] k \in MetaKinds -> <<>>
\* rows the statement's result set holds (ty has one row; the status / count results have one row)
NRows(k) == IF k \in {"show_schemas", "show_tables"} THEN -1 ELSE IF k = "describe_table" THEN -1 ELSE 1

\* data: rows in ty; orig: the fully populated original row is still there (TRUNCATE removes it); inserted rows have only i set
InitSt == [last |-> "none", idx |-> 0, data |-> 1, orig |-> TRUE, tx |-> FALSE, sdata |-> 1, sorig |-> TRUE, zzj |-> FALSE]
OverTy == ColKinds \cup {"two", "dup", "sample"}
\* number of rows of the result of kind k in state st, and the classes of the non-null values of its j-th row (ORDER BY i)
NRes(st, k) == IF k \in OverTy THEN st.data ELSE IF k = "param" THEN (IF st.orig THEN 1 ELSE 0) ELSE IF k = "starzz" THEN 0 ELSE 1
PyRow(st, k, j) == IF k = "dup" THEN <<>> ELSE IF k \in OverTy /\ ~(st.orig /\ j = 1) THEN (IF k \in {"i", "sample"} THEN <<"int">> ELSE <<>>) ELSE Py(k)

\* ---- observations ----
\*  res    : "ok" | "none" (description is None / no row left) | "exc"
\*  d      : the description: <<name, type code, precision, scale>> per column (empty for MetaKinds)
\*  struct : "ok" when len(description) = width of the rows and the names equal the DictCursor keys, "na" without rows
\*  py     : Python classes of the non-null values of the row handed out by this fetch
\*  data   : rows in ty, read through a raw cursor (describe / description must not execute anything)
Obs(res, d, struct, py, st2) == [res |-> res, d |-> d, struct |-> struct, py |-> py, data |-> st2.data]

DescIn(st, k) == IF k = "starzz" /\ st.zzj THEN << <<"I", 0, 38, 0>>, <<"J", 0, 38, 0>> >> ELSE Desc(k)
DescObs(st, k, D) ==
  {Obs("ok", DescIn(st, k), "ok", <<>>, st)}
  \cup (IF "C06.seeded_random_describes_setseed" \in D /\ k = "random"
        THEN {Obs("ok", << <<"SETSEED", 0, -2, 0>> >>, "bad", <<>>, st)} ELSE {})
  \cup (IF "C06.description_unavailable" \in D /\ k \in {"merge", "truncate", "sample"}
        THEN {Obs("exc", <<>>, "na", <<>>, st)} ELSE {})

Steps(st, op, D) ==
  CASE op.k = "exec" ->
         LET \* transactions: BEGIN remembers the table, ROLLBACK (or the driver's rollback before a nested BEGIN) restores it
             back == IF st.tx /\ op.kind \in {"rollback", "begin"} THEN [st EXCEPT !.data = st.sdata, !.orig = st.sorig] ELSE st
             s1 == [back EXCEPT !.tx = IF op.kind = "begin" THEN TRUE ELSE IF op.kind \in {"commit", "rollback"} THEN FALSE ELSE @,
                                !.sdata = IF op.kind = "begin" THEN back.data ELSE @, !.sorig = IF op.kind = "begin" THEN back.orig ELSE @]
             s2 == [s1 EXCEPT !.last = op.kind, !.idx = 0,
                              !.data = IF op.kind = "ins" THEN @ + 1 ELSE IF op.kind = "truncate" THEN 0 ELSE @,
                              !.orig = IF op.kind = "truncate" THEN FALSE ELSE @,
                              !.zzj = IF op.kind = "alter" THEN TRUE ELSE @]
         IN {R(s2, o) : o \in DescObs(s2, op.kind, D)}
    [] op.k = "descr" ->     \* ReadDescription: a stutter step on the pending result set, the data and the session
         IF st.last = "none" THEN {R(st, Obs("none", <<>>, "na", <<>>, st))}
         ELSE {R(st, o) : o \in DescObs(st, st.last, D)}
    [] op.k = "fetch" ->
         IF st.last = "none" THEN {R(st, Obs("exc", <<>>, "na", <<>>, st))}
         ELSE IF st.last \in MetaKinds \cup {"merge"} THEN     \* row contents: not judged here (MERGE's counts belong to C12)
              {R([st EXCEPT !.idx = @ + 1], Obs(x, <<>>, "na", <<>>, st)) : x \in {"ok", "none"}}
         ELSE IF st.idx >= NRes(st, st.last) THEN {R(st, Obs("none", <<>>, "na", <<>>, st))}
         ELSE LET s2 == [st EXCEPT !.idx = @ + 1]
                  py == PyRow(st, st.last, st.idx + 1) IN
              {R(s2, Obs("ok", <<>>, "na", py, s2))}
              \cup (IF st.last = "sample" THEN {R(s2, Obs("none", <<>>, "na", <<>>, s2))} ELSE {})     \* a 50% sample may skip rows
              \cup (IF st.last = "truncate" THEN {R(s2, Obs("ok", <<>>, "na", <<"int">>, s2))} ELSE {})  \* TRUNCATE's status row is not fixed by the property
              \cup (IF "C06.fixed_scale0_fetched_as_decimal" \in D /\ st.last \in {"n", "n10", "merge"} /\ py = <<"int">>
                    THEN {R(s2, Obs("ok", <<>>, "na", <<"Decimal">>, s2))} ELSE {})
    [] op.k = "describe" ->  \* cursor.describe(q): what description is after executing q, without executing it
         {R(st, [o EXCEPT !.struct = "na"]) : o \in DescObs(st, op.kind, D)}
         \cup (IF "C06.describe_non_query_unsupported" \in D /\ op.kind \notin QueryKinds
               THEN {R(st, Obs("exc", <<>>, "na", <<>>, st))} ELSE {})

CONSTANTS KindsUsed
Ops(st) == [k : {"exec", "describe"}, kind : KindsUsed \cap Kinds] \cup [k : {"descr", "fetch"}]

StepOk(st, op, r) ==
  /\ (op.k \in {"descr", "describe"} => r.post = st)                                        \* reading never changes anything
  /\ (op.k = "exec" => r.obs.res = "ok" /\ r.obs.d = DescIn(r.post, op.kind) /\ r.obs.struct = "ok")   \* Available after every successful execute
  /\ (op.k = "describe" => r.obs.res = "ok" /\ r.obs.d = DescIn(st, op.kind))                      \* Describe(q) = description after Execute(q)
  /\ (op.k = "descr" /\ st.last # "none" => r.obs.d = DescIn(st, st.last))
  /\ (op.k = "fetch" /\ r.obs.res = "ok" /\ st.last \notin MetaKinds \cup {"truncate", "merge"} =>
        r.obs.py = PyRow(st, st.last, st.idx + 1))                                           \* classes agree with the description
=============================================================================
