------------------------------ MODULE FsPersist ------------------------------
(* C18 - with db_path, committed state survives exit, exceptions and kills.  *)
(*                                                                           *)
(* A first process connects (database D1, schema S1, db_path = dir) and runs *)
(* a history of statements; it ends by a clean exit of the patch() block, by *)
(* an exception, or by SIGKILL right before its k-th engine call.  A second  *)
(* process then opens the same path and reads what is there.                 *)
(* Durable(j) is the committed state after j statements; fakesnow statements *)
(* are atomic: an interrupted one is wholly there or not at all.             *)
EXTENDS FsBase

AllDevs == {"C18.create_table_metadata_not_atomic"}

NoTab == [e |-> FALSE, n |-> 0, c |-> "", l |-> 0]
Empty == [t1 |-> NoTab, t2 |-> NoTab]
InitSt == [x |-> 0]
Stmts == {"ct1", "ct2", "cr1", "i1", "i2", "cm1", "dt1", "begin", "commit", "rollback"}
\* the effect of one statement on the (session-visible) tables; statements that fail (missing table) change nothing
Apply(s, x) ==
  CASE s = "ct1" -> IF x.t1.e THEN x ELSE [x EXCEPT !.t1 = [e |-> TRUE, n |-> 0, c |-> "c1", l |-> 5]]     \* CREATE TABLE t1 (a VARCHAR(5)) COMMENT = 'c1'
    [] s = "cr1" -> [x EXCEPT !.t1 = [e |-> TRUE, n |-> 0, c |-> "c1", l |-> 5]]                             \* CREATE OR REPLACE TABLE t1 (a VARCHAR(5)) COMMENT = 'c1'
    [] s = "ct2" -> IF x.t2.e THEN x ELSE [x EXCEPT !.t2 = [e |-> TRUE, n |-> 0, c |-> "", l |-> 16777216]] \* CREATE TABLE t2 (a VARCHAR)
    [] s = "i1"  -> IF x.t1.e THEN [x EXCEPT !.t1.n = @ + 1] ELSE x
    [] s = "i2"  -> IF x.t2.e THEN [x EXCEPT !.t2.n = @ + 1] ELSE x
    [] s = "cm1" -> IF x.t1.e THEN [x EXCEPT !.t1.c = "c2"] ELSE x                                           \* COMMENT ON TABLE t1 IS 'c2'
    [] s = "dt1" -> [x EXCEPT !.t1 = NoTab]
    [] OTHER -> x
\* run a prefix: <<visible, durable, in transaction>>
RECURSIVE Run(_, _, _, _)
Run(stmts, vis, dur, tx) ==
  IF stmts = <<>> THEN <<vis, dur, tx>>
  ELSE LET s == Head(stmts) IN
       IF s = "begin" THEN Run(Tail(stmts), vis, dur, TRUE)
       ELSE IF s = "commit" THEN Run(Tail(stmts), vis, vis, FALSE)
       ELSE IF s = "rollback" THEN Run(Tail(stmts), dur, dur, FALSE)
       ELSE LET v2 == Apply(s, vis) IN Run(Tail(stmts), v2, IF tx THEN dur ELSE v2, tx)
Durable(stmts, j) == Run(SubSeq(stmts, 1, j), Empty, Empty, FALSE)[2]

\* ---- observations ----
\*  done : statements that had returned in the first process (-1: not even connect); rec : what the second process finds;
\*  files : "none" | "some" (files under the directory); mem: an in-memory instance saw nothing / left nothing
\*  use : "ok" when the second process can go on working with what it found (CREATE TABLE with a comment and a VARCHAR length,
\*        INSERT, read the metadata back, DROP)
Obs(done, rec, files) == [done |-> done, rec |-> rec, files |-> files, use |-> "ok"]

\* as built CREATE TABLE is three engine calls (table, comment row, length rows): a kill in between leaves the table
\* without its comment, or with the comment but without its VARCHAR length
Partial(s, before) ==
  IF s = "ct1" /\ ~before.t1.e THEN {[before EXCEPT !.t1 = [e |-> TRUE, n |-> 0, c |-> "", l |-> 0]],
                                    [before EXCEPT !.t1 = [e |-> TRUE, n |-> 0, c |-> "c1", l |-> 0]]}
  \* replacing an existing t1: the new (empty) table first shows the OLD comment and length rows (the side tables are keyed by name)
  ELSE IF s = "cr1" /\ before.t1.e THEN {[before EXCEPT !.t1 = [e |-> TRUE, n |-> 0, c |-> before.t1.c, l |-> before.t1.l]],
                                         [before EXCEPT !.t1 = [e |-> TRUE, n |-> 0, c |-> "c1", l |-> before.t1.l]]}
  ELSE IF s = "cr1" THEN {[before EXCEPT !.t1 = [e |-> TRUE, n |-> 0, c |-> "", l |-> 0]],
                          [before EXCEPT !.t1 = [e |-> TRUE, n |-> 0, c |-> "c1", l |-> 0]]}
  ELSE IF s = "ct2" /\ ~before.t2.e THEN {[before EXCEPT !.t2 = [e |-> TRUE, n |-> 0, c |-> "", l |-> 0]]}
  ELSE {}

Steps(st, op, D) ==
  LET n == Len(op.stmts) IN
  CASE op.k = "run" /\ op.storage = "memory" ->
         {R(st, Obs(n, Empty, "none"))}                     \* in-memory instances never touch the disk nor see each other
    [] op.k = "run" /\ op.how = "exc_again" ->
         \* the first op.at statements run in a patch() block that is left by an exception while the application keeps its
         \* connection object; the rest runs in a second patch() block of the same process on the same path, left cleanly
         {R(st, Obs(n, Durable(op.stmts, n), "some"))}
    [] op.k = "run" /\ op.how \in {"exit_clean", "exit_exception"} ->
         {R(st, Obs(n, Durable(op.stmts, n), "some"))}      \* uncommitted work is absent, everything committed is there
    [] op.k = "run" /\ op.how = "kill" ->
         \* killed before engine call op.at: some prefix of the statements had returned (reported by the first process itself)
         UNION {
           LET recs == {Durable(op.stmts, Max(j, 0))} \cup (IF j >= 0 /\ j < n THEN {Durable(op.stmts, j + 1)} ELSE {})
                       \cup (IF "C18.create_table_metadata_not_atomic" \in D /\ j >= 0 /\ j < n
                                /\ ~Run(SubSeq(op.stmts, 1, j), Empty, Empty, FALSE)[3]
                             THEN Partial(op.stmts[j + 1], Durable(op.stmts, j)) ELSE {})
           IN {R(st, Obs(j, rec, f)) : rec \in recs, f \in {"none", "some"}}
           : j \in -1..n}

CONSTANTS MaxLen, MaxKill, StmtsUsed, HowUsed
\* (BEGIN inside a transaction is outside the property, see C13)
RECURSIVE WellFormed(_, _, _)
\* statements refer to existing tables only (failing statements are C07's subject); vis: the session-visible tables so far
WellFormed(h, tx, vis) ==
  IF h = <<>> THEN TRUE
  ELSE LET s == Head(h) IN
       /\ (s = "begin" => ~tx)
       /\ (s \in {"i1", "cm1", "dt1"} => vis.t1.e) /\ (s = "i2" => vis.t2.e) /\ (s = "ct1" => ~vis.t1.e) /\ (s = "ct2" => ~vis.t2.e)
       /\ WellFormed(Tail(h), IF s = "begin" THEN TRUE ELSE IF s \in {"commit", "rollback"} THEN FALSE ELSE tx, Apply(s, vis))
Histories == {h \in SeqsUpTo(StmtsUsed, MaxLen) : h # <<>> /\ WellFormed(h, FALSE, Empty)}
\* spell: the letter case in which the first / the second process name the database (the same database either way)
Spells == {"upper_upper", "lower_upper", "upper_lower"}
Ops(st) == {o \in [k : {"run"}, stmts : Histories, storage : {"path"}, how : {"exit_clean", "exit_exception"}, at : {0}, spell : Spells]
                 \cup [k : {"run"}, stmts : Histories, storage : {"path"}, how : {"kill"}, at : 1..MaxKill, spell : {"upper_upper"}]
                 \cup [k : {"run"}, stmts : Histories, storage : {"memory"}, how : {"exit_clean"}, at : {0}, spell : {"upper_upper"}]
                 \* (the block that raises is not left inside a transaction: its uncommitted work would be gone for the second block)
                 \cup {x \in [k : {"run"}, stmts : Histories, storage : {"path"}, how : {"exc_again"}, at : 0..MaxLen, spell : {"upper_upper"}] :
                         x.at <= Len(x.stmts) /\ ~Run(SubSeq(x.stmts, 1, x.at), Empty, Empty, FALSE)[3]}
              : o.how \in HowUsed}

\* ---- C18 on the model ----
StepOk(st, op, r) ==
  LET n == Len(op.stmts)  j == r.obs.done IN
  /\ r.obs.use = "ok"
  /\ (op.storage = "path" /\ op.how # "kill" => r.obs.rec = Durable(op.stmts, n))                 \* Durable + NoUncommitted
  /\ (op.storage = "path" /\ op.how = "kill" =>                                                  \* StatementAtomic
        r.obs.rec \in {Durable(op.stmts, Max(j, 0))} \cup (IF j >= 0 /\ j < n THEN {Durable(op.stmts, j + 1)} ELSE {}))
  /\ (op.storage = "memory" => r.obs.rec = Empty /\ r.obs.files = "none")                         \* MemoryIsolated
=============================================================================
