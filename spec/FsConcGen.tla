------------------------------ MODULE FsConcGen ------------------------------
EXTENDS FsConc, Json
CONSTANTS Devs, Depth, MaxFails, SampleOneIn
VARIABLES st, hist, nf, ok
\* the interleaving model's variables are idle while schedules are enumerated
GInit == st = InitSt /\ hist = <<>> /\ nf = 0 /\ ok = TRUE /\ CInit
GNext == /\ \E op \in Ops(st) : \E r \in Steps(st, op, Devs) :
              st' = r.post /\ hist' = Append(hist, op) /\ nf' = nf /\ ok' = StepOk(st, op, r)
         /\ UNCHANGED cvars
Init == GInit
Next == GNext
StepInv == ok
Bound == Len(hist) < Depth
ViewSt == <<st, ok>>
EmitAll == PrintT(<<"B", ToJson(hist')>>)
EmitSample == RandomElement(1..SampleOneIn) = 1 => PrintT(<<"B", ToJson(hist')>>)
\* the interleaving model
IInit == CInit /\ st = InitSt /\ hist = <<>> /\ nf = 0 /\ ok = TRUE
INext == CNext /\ UNCHANGED <<st, hist, nf, ok>>
=============================================================================
