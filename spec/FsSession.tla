------------------------------ MODULE FsSession ------------------------------
(* C03 - names resolve against each connection's own current database and    *)
(* schema.                                                                   *)
(*                                                                           *)
(* Catalog shared by all connections of one instance: databases, schemas,    *)
(* tables (one table name T; a table is identified by <<db, schema, "T">>).  *)
(* Per connection: the REPORTED context (conn.database / conn.schema) and    *)
(* the EFFECTIVE context (where unqualified names really resolve).  The      *)
(* ideal keeps them equal; they are separate fields so that the as-built     *)
(* behaviour after a recorded deviation can be followed.  MAIN is the        *)
(* engine's default schema of a database (never a user schema).              *)
EXTENDS FsBase
CONSTANTS Db, Sc, Conn

AllDevs == {"C03.usedb_keeps_reported_schema", "C03.current_functions_engine_defaults", "C03.merge_needs_current_schema"}

NONE == "none"
MAIN == "main"
Closed == [open |-> FALSE, rdb |-> NONE, rsc |-> NONE, edb |-> NONE, esc |-> NONE, dset |-> FALSE, sset |-> FALSE, eng |-> MAIN]
InitSt == [dbs |-> {}, schemas |-> {}, tables |-> {}, ctx |-> [c \in Conn |-> Closed]]

\* ---- observations ----
\*  res  : "ok" | "missing" (ProgrammingError 2003 / 2043: no such object, or it already exists)
\*         | "nodb" (90105, sqlstate 22000) | "nosc" (90106, sqlstate 22000) | "hit" (a query / insert reached a table)
\*  hit  : the physical table a query read / an insert wrote: <<db, schema, "T">>, or <<>>
\*  ctx  : per connection <<conn.database, conn.schema, CURRENT_DATABASE(), CURRENT_SCHEMA()>>, "-" when not connected
\*  cat  : the live catalog read through a raw engine cursor
Cdb(x, D) == IF x.edb = NONE THEN (IF "C03.current_functions_engine_defaults" \in D THEN "memory" ELSE NONE) ELSE x.edb
\* as built CURRENT_SCHEMA() is the engine's own search path (field eng): "main" by default, and still the old name
\* after the current schema was dropped
Csc(x, D) == IF "C03.current_functions_engine_defaults" \in D THEN x.eng
             ELSE IF x.esc \in {NONE, MAIN} THEN NONE ELSE x.esc
Rep(st, D) == [c \in Conn |-> IF st.ctx[c].open THEN <<st.ctx[c].rdb, st.ctx[c].rsc, Cdb(st.ctx[c], D), Csc(st.ctx[c], D)>>
                              ELSE <<"-", "-", "-", "-">>]
Mk(st2, res, hit, D) == [res |-> res, hit |-> hit, ctx |-> Rep(st2, D),
                         dbs |-> st2.dbs, schemas |-> st2.schemas, tables |-> st2.tables]
RH(st2, res, hit, D) == R(st2, Mk(st2, res, hit, D))
RR(st2, res, D) == RH(st2, res, <<>>, D)

SchemaOk(st, t) == t \in st.schemas \/ (t[2] = MAIN /\ t[1] \in st.dbs)
\* the schema a name at qualification level q denotes for connection context x
Target(x, op) == IF op.q = 3 THEN <<op.d, op.s>> ELSE IF op.q = 2 THEN <<x.edb, op.s>> ELSE <<x.edb, x.esc>>

\* contexts of OTHER connections that point at a dropped schema: the property does not say whether they are cleared
\* or left dangling, so both are allowed (per connection)
RECURSIVE Others(_, _, _, _)
Others(st, me, t, cs) ==
  IF cs = {} THEN {st}
  ELSE LET c == CHOOSE c \in cs : TRUE
           rest == Others(st, me, t, cs \ {c})
           x == st.ctx[c] IN
       IF c = me \/ ~x.open \/ <<x.edb, x.esc>> # t THEN rest
       ELSE rest \cup {[s EXCEPT !.ctx[c].rsc = NONE, !.ctx[c].esc = NONE, !.ctx[c].sset = FALSE] : s \in rest}

\* the engine may or may not reset its own search path (what CURRENT_SCHEMA() shows as built) when the schema it names
\* is dropped: both are allowed for every connection whose path names the dropped schema
RECURSIVE EngVariants(_, _, _)
EngVariants(S, t, cs) ==
  IF cs = {} THEN S
  ELSE LET c == CHOOSE c \in cs : TRUE
           rest == EngVariants(S, t, cs \ {c}) IN
       rest \cup {[s EXCEPT !.ctx[c].eng = MAIN] : s \in {s \in rest : s.ctx[c].open /\ s.ctx[c].edb = t[1] /\ s.ctx[c].eng = t[2]}}

\* spelling variants of a DDL statement: CREATE TABLE | CREATE TABLE IF NOT EXISTS | CREATE TRANSIENT TABLE,
\* DROP TABLE | DROP TABLE IF EXISTS, CREATE SCHEMA | CREATE SCHEMA IF NOT EXISTS.  IF [NOT] EXISTS turns the "already exists" /
\* "does not exist" outcome into a successful no-op and changes nothing else - in particular not the need for a context.
Form(op) == IF "form" \in DOMAIN op THEN op.form ELSE "plain"
Lenient(op) == Form(op) \in {"ine", "ie"}

Steps(st, op, D) ==
 LET x == st.ctx[op.c] IN
 CASE op.k = "connect" ->
        \* defaults: both auto-create flags on (C14 covers the other configurations)
        LET dbs1 == IF op.d # NONE THEN st.dbs \cup {op.d} ELSE st.dbs
            sch1 == IF op.d # NONE /\ op.s # NONE THEN st.schemas \cup {<<op.d, op.s>>} ELSE st.schemas
            has == op.d # NONE
            y == [open |-> TRUE, rdb |-> op.d, rsc |-> IF has THEN op.s ELSE op.s,
                  edb |-> op.d, esc |-> IF has THEN op.s ELSE NONE, dset |-> has, sset |-> has /\ op.s # NONE,
                  eng |-> IF has /\ op.s # NONE THEN op.s ELSE MAIN]
            s2 == [st EXCEPT !.dbs = dbs1, !.schemas = sch1, !.ctx[op.c] = y] IN
        {RR(s2, "ok", D)}
   [] op.k = "createdb" ->
        IF op.d \in st.dbs THEN {RR(st, "missing", D)}
        ELSE {RR([st EXCEPT !.dbs = @ \cup {op.d}], "ok", D)}
   [] op.k = "createsc" ->
        IF op.q = 2 /\ ~x.dset THEN {RR(st, "nodb", D)}
        ELSE LET t == IF op.q = 3 THEN <<op.d, op.s>> ELSE <<x.edb, op.s>> IN
             IF t[1] \notin st.dbs THEN {RR(st, "missing", D)}
             ELSE IF t \in st.schemas THEN {RR(st, IF Lenient(op) THEN "ok" ELSE "missing", D)}
             ELSE {RR([st EXCEPT !.schemas = @ \cup {t}], "ok", D)}
   [] op.k = "dropsc" ->
        IF op.q = 2 /\ ~x.dset THEN {RR(st, "nodb", D)}
        ELSE LET t == IF op.q = 3 THEN <<op.d, op.s>> ELSE <<x.edb, op.s>> IN
             IF t \notin st.schemas THEN {RR(st, "missing", D)}
             ELSE LET base == [st EXCEPT !.schemas = @ \ {t}, !.tables = {y \in @ : <<y[1], y[2]>> # t}]
                      mine == <<x.edb, x.esc>> = t
                      \* dropping my own current schema leaves me without a current schema
                      b2 == IF mine THEN [base EXCEPT !.ctx[op.c].rsc = NONE, !.ctx[op.c].esc = NONE, !.ctx[op.c].sset = FALSE]
                            ELSE IF x.esc = MAIN /\ x.rsc = op.s /\ x.edb = t[1]
                                 \* aftermath of C03.usedb_keeps_reported_schema: the stale reported schema is what gets cleared
                                 THEN [base EXCEPT !.ctx[op.c].rsc = NONE, !.ctx[op.c].sset = FALSE]
                                 ELSE base
                  IN {RR(s, "ok", D) : s \in EngVariants(Others(b2, op.c, t, Conn), t, Conn)}
   [] op.k = "usedb" ->
        IF op.d \notin st.dbs THEN {RR(st, "missing", D)}
        ELSE \* the property is silent about the schema after USE DATABASE: any existing schema of d, or none - but
             \* reported, effective and CURRENT_* must agree
             {RR([st EXCEPT !.ctx[op.c] = [open |-> TRUE, rdb |-> op.d, rsc |-> s, edb |-> op.d, esc |-> s,
                                           dset |-> TRUE, sset |-> s # NONE, eng |-> IF s = NONE THEN MAIN ELSE s]], "ok", D)
                : s \in {NONE} \cup {s \in Sc : <<op.d, s>> \in st.schemas}}
             \cup (IF "C03.usedb_keeps_reported_schema" \in D
                   \* as built (cursor.py USE DATABASE branch + set_schema): conn.schema is kept, the engine moves to d.main
                   THEN {RR([st EXCEPT !.ctx[op.c] = [open |-> TRUE, rdb |-> op.d, rsc |-> x.rsc, edb |-> op.d,
                                                      esc |-> IF x.sset THEN MAIN ELSE NONE, dset |-> TRUE, sset |-> x.sset, eng |-> MAIN]], "ok", D)}
                   ELSE {})
   [] op.k = "usesc" ->
        IF op.q = 2 /\ ~x.dset THEN {RR(st, "nodb", D), RR(st, "missing", D)}
        ELSE LET t == IF op.q = 3 THEN <<op.d, op.s>> ELSE <<x.edb, op.s>> IN
             IF t \notin st.schemas THEN {RR(st, "missing", D)}
             ELSE {RR([st EXCEPT !.ctx[op.c] = [open |-> TRUE, rdb |-> t[1], rsc |-> t[2], edb |-> t[1], esc |-> t[2],
                                               dset |-> TRUE, sset |-> TRUE, eng |-> t[2]]], "ok", D)}
   [] op.k \in {"createt", "dropt", "probe", "ins"} ->
        \* as built MERGE creates its scratch table under an unqualified name first: without a current database / schema it fails
        \* with 90105 / 90106 however well its target is qualified
        IF "C03.merge_needs_current_schema" \in D /\ op.k = "ins" /\ "how" \in DOMAIN op /\ (~x.dset \/ ~x.sset)
        THEN {RR(st, IF ~x.dset THEN "nodb" ELSE "nosc", D)}
        ELSE IF op.q < 3 /\ ~x.dset THEN {RR(st, "nodb", D)}
        ELSE IF op.q < 2 /\ ~x.sset THEN {RR(st, "nosc", D)}
        ELSE LET t == Target(x, op)
                 t0 == <<t[1], t[2], "T">>
                 \* aftermath of C03.usedb_keeps_reported_schema: tables created in d.main are found by the engine's
                 \* search-path fallback from every schema of d (unqualified names only)
                 tm == <<t[1], MAIN, "T">>
                 tt == IF op.q = 1 /\ op.k # "createt" /\ t0 \notin st.tables /\ tm \in st.tables
                          /\ "C03.usedb_keeps_reported_schema" \in D THEN tm ELSE t0 IN
             IF op.k = "createt" THEN
                IF ~SchemaOk(st, t) THEN {RR(st, "missing", D)}
                ELSE IF tt \in st.tables THEN {RR(st, IF Lenient(op) THEN "ok" ELSE "missing", D)}
                ELSE {RR([st EXCEPT !.tables = @ \cup {tt}], "ok", D)}
             ELSE IF op.k = "dropt" THEN
                \* IF EXISTS in a schema that does not exist: a no-op or an error - the property does not say
                IF tt \notin st.tables THEN (IF ~Lenient(op) THEN {RR(st, "missing", D)}
                                             ELSE IF SchemaOk(st, t) THEN {RR(st, "ok", D)} ELSE {RR(st, "ok", D), RR(st, "missing", D)})
                ELSE {RR([st EXCEPT !.tables = @ \ {tt}], "ok", D)}
             ELSE IF tt \in st.tables THEN {RH(st, "hit", tt, D)} ELSE {RR(st, "missing", D)}

\* ---- vocabulary ----
D0 == CHOOSE x \in Db : TRUE
S0 == CHOOSE x \in Sc : TRUE
Ops(st) ==
  LET Open == {c \in Conn : st.ctx[c].open} IN
  [k : {"connect"}, c : {c \in Conn : ~st.ctx[c].open}, d : Db, s : Sc \cup {NONE}]
  \cup [k : {"connect"}, c : {c \in Conn : ~st.ctx[c].open}, d : {NONE}, s : {NONE}]
  \cup [k : {"createdb", "usedb"}, c : Open, d : Db]
  \cup [k : {"createsc", "dropsc", "usesc"}, c : Open, q : {2}, d : {D0}, s : Sc]
  \cup [k : {"createsc", "dropsc", "usesc"}, c : Open, q : {3}, d : Db, s : Sc]
  \cup [k : {"createt", "dropt", "probe", "ins"}, c : Open, q : {1}, d : {D0}, s : {S0}]
  \cup [k : {"createt", "dropt", "probe", "ins"}, c : Open, q : {2}, d : {D0}, s : Sc]
  \cup [k : {"createt", "dropt", "probe", "ins"}, c : Open, q : {3}, d : Db, s : Sc]
  \cup [k : {"createt"}, c : Open, q : {1, 2}, d : {D0}, s : {S0}, form : {"ine", "transient"}]
  \cup [k : {"createt"}, c : Open, q : {3}, d : Db, s : {S0}, form : {"ine", "transient"}]
  \cup [k : {"dropt"}, c : Open, q : {1, 3}, d : {D0}, s : {S0}, form : {"ie"}]
  \cup [k : {"createsc"}, c : Open, q : {2}, d : {D0}, s : {S0}, form : {"ine"}]
  \* the same write through MERGE ... WHEN NOT MATCHED THEN INSERT: the target name resolves like any other name
  \cup [k : {"ins"}, c : Open, q : {1, 2}, d : {D0}, s : Sc, how : {"merge"}]
  \cup [k : {"ins"}, c : Open, q : {3}, d : Db, s : Sc, how : {"merge"}]

IsErr(r) == r.obs.res \in {"missing", "nodb", "nosc"}

\* ---- C03 on the model ----
Agree(st) == \A c \in Conn : st.ctx[c].open =>
                /\ st.ctx[c].rdb = st.ctx[c].edb /\ st.ctx[c].rsc = st.ctx[c].esc
                /\ st.ctx[c].dset = (st.ctx[c].edb # NONE) /\ st.ctx[c].sset = (st.ctx[c].esc # NONE)
StepOk(st, op, r) ==
  /\ Agree(r.post)
  \* reported = CURRENT_* for every connection
  /\ \A c \in Conn : r.obs.ctx[c][1] = r.obs.ctx[c][3] /\ r.obs.ctx[c][2] = r.obs.ctx[c][4]
  \* Frame: a context changes only by the connection's own successful connect / USE, or by a DROP of the object
  /\ \A c \in Conn : r.post.ctx[c] # st.ctx[c] =>
        \/ (c = op.c /\ op.k \in {"connect", "usedb", "usesc"} /\ r.obs.res = "ok")
        \/ (op.k = "dropsc" /\ r.obs.res = "ok" /\ <<st.ctx[c].edb, st.ctx[c].esc>> \notin r.post.schemas)
  \* a failing statement changes nothing
  /\ (IsErr(r) => r.post = st)
  \* ResolveFQ: a level-1/2 name denotes what the fully qualified name built from the context denotes
  /\ (op.k \in {"probe", "ins"} /\ r.obs.res = "hit" =>
        r.obs.hit = <<IF op.q = 3 THEN op.d ELSE st.ctx[op.c].rdb, IF op.q >= 2 THEN op.s ELSE st.ctx[op.c].rsc, "T">>)
  \* NoCtxError: 90105 / 90106 exactly when the needed context is missing
  /\ (r.obs.res = "nodb" => st.ctx[op.c].rdb = NONE) /\ (r.obs.res = "nosc" => st.ctx[op.c].rsc = NONE)
  \* ... and only when it needs it: a fully qualified name needs no context, a schema-qualified one no current schema
  /\ (op.k \in {"createt", "dropt", "probe", "ins"} /\ op.q = 3 => r.obs.res \notin {"nodb", "nosc"})
  /\ (op.k \in {"createt", "dropt", "probe", "ins"} /\ op.q = 2 => r.obs.res # "nosc")
=============================================================================
