------------------------------- MODULE FsFuncs -------------------------------
(* C10 - rewritten Snowflake functions return what Snowflake documents.      *)
(*                                                                           *)
(* Pure operators transcribed from the Snowflake documentation pages the     *)
(* transforms cite.  A case is an operation [fn, arguments..., ctx]; the     *)
(* expected result is [res, v, ty]: res "val" | "null" | "err", v the value  *)
(* as canonical text, ty the Python class the connector hands out.           *)
(* Strings are sequences of one-character strings (TLC cannot index strings).*)
EXTENDS FsBase

AllDevs == {"C10.dateadd_quarter_is_90_days", "C10.datediff_week_not_monday_boundaries", "C10.to_decimal_numeric_truncates",
            "C10.to_decimal_overflow_not_rejected", "C10.trim_chars_ignored", "C10.two_seeded_randoms_rejected"}

\* ---------------------------------------------------------------- integers <-> text
Digit(n) == CASE n = 0 -> "0" [] n = 1 -> "1" [] n = 2 -> "2" [] n = 3 -> "3" [] n = 4 -> "4" [] n = 5 -> "5" [] n = 6 -> "6"
              [] n = 7 -> "7" [] n = 8 -> "8" [] n = 9 -> "9"
RECURSIVE NatStr(_)
NatStr(n) == IF n < 10 THEN Digit(n) ELSE NatStr(n \div 10) \o Digit(n % 10)
IntStr(n) == IF n < 0 THEN "-" \o NatStr(-n) ELSE NatStr(n)
Pad2(n) == IF n < 10 THEN "0" \o NatStr(n) ELSE NatStr(n)
Pad4(n) == IF n < 10 THEN "000" \o NatStr(n) ELSE IF n < 100 THEN "00" \o NatStr(n) ELSE IF n < 1000 THEN "0" \o NatStr(n) ELSE NatStr(n)
RECURSIVE Join(_)
Join(q) == IF q = <<>> THEN "" ELSE Head(q) \o Join(Tail(q))
RECURSIVE Pow10(_)
Pow10(k) == IF k = 0 THEN 1 ELSE 10 * Pow10(k - 1)
Abs(x) == IF x < 0 THEN -x ELSE x

\* ---------------------------------------------------------------- proleptic Gregorian calendar
FDiv(a, b) == IF a >= 0 THEN a \div b ELSE -((-a + b - 1) \div b)
FMod(a, b) == a - b * FDiv(a, b)
DaysFromCivil(y, m, d) ==                      \* days since 1970-01-01 (Howard Hinnant's algorithm)
  LET yy == IF m <= 2 THEN y - 1 ELSE y
      era == FDiv(yy, 400)
      yoe == yy - era * 400
      mp == IF m > 2 THEN m - 3 ELSE m + 9
      doy == (153 * mp + 2) \div 5 + d - 1
      doe == yoe * 365 + yoe \div 4 - yoe \div 100 + doy
  IN era * 146097 + doe - 719468
CivilFromDays(z0) ==
  LET z == z0 + 719468
      era == FDiv(z, 146097)
      doe == z - era * 146097
      yoe == (doe - doe \div 1460 + doe \div 36524 - doe \div 146096) \div 365
      y == yoe + era * 400
      doy == doe - (365 * yoe + yoe \div 4 - yoe \div 100)
      mp == (5 * doy + 2) \div 153
      d == doy - (153 * mp + 2) \div 5 + 1
      m == IF mp < 10 THEN mp + 3 ELSE mp - 9
  IN <<IF m <= 2 THEN y + 1 ELSE y, m, d>>
IsLeap(y) == (y % 4 = 0 /\ y % 100 # 0) \/ y % 400 = 0
Dim(y, m) == IF m = 2 THEN (IF IsLeap(y) THEN 29 ELSE 28) ELSE IF m \in {4, 6, 9, 11} THEN 30 ELSE 31
DateStr(t) == Pad4(t[1]) \o "-" \o Pad2(t[2]) \o "-" \o Pad2(t[3])
\* DATEADD(month, n, date): same day of month, clamped to the last day of the target month
AddMonths(t, n) ==
  LET k == (t[1] * 12 + (t[2] - 1)) + n  yy == FDiv(k, 12)  mm == FMod(k, 12) + 1 IN <<yy, mm, Min(t[3], Dim(yy, mm))>>
DateAdd(part, n, t) ==
  CASE part = "year"    -> AddMonths(t, 12 * n)
    [] part = "quarter" -> AddMonths(t, 3 * n)
    [] part = "month"   -> AddMonths(t, n)
    [] part = "week"    -> CivilFromDays(DaysFromCivil(t[1], t[2], t[3]) + 7 * n)
    [] part = "day"     -> CivilFromDays(DaysFromCivil(t[1], t[2], t[3]) + n)
\* DATEDIFF counts boundaries crossed; weeks start on Monday (WEEK_START default); 1970-01-01 was a Thursday
WeekNo(days) == FDiv(days + 3, 7)
DateDiff(part, a, b) ==
  CASE part = "year"    -> b[1] - a[1]
    [] part = "quarter" -> (b[1] * 4 + (b[2] - 1) \div 3) - (a[1] * 4 + (a[2] - 1) \div 3)
    [] part = "month"   -> (b[1] * 12 + b[2]) - (a[1] * 12 + a[2])
    [] part = "week"    -> WeekNo(DaysFromCivil(b[1], b[2], b[3])) - WeekNo(DaysFromCivil(a[1], a[2], a[3]))
    [] part = "day"     -> DaysFromCivil(b[1], b[2], b[3]) - DaysFromCivil(a[1], a[2], a[3])

\* DATEADD of a time part to a DATE gives a TIMESTAMP_NTZ: midnight of the date plus n units
Pad6(n) == IF n < 10 THEN "00000" \o NatStr(n) ELSE IF n < 100 THEN "0000" \o NatStr(n) ELSE IF n < 1000 THEN "000" \o NatStr(n)
           ELSE IF n < 10000 THEN "00" \o NatStr(n) ELSE IF n < 100000 THEN "0" \o NatStr(n) ELSE NatStr(n)
SubDaySecs(part, n) == CASE part = "hour" -> 3600 * n [] part = "second" -> n [] part = "millisecond" -> n \div 1000 [] part = "microsecond" -> n \div 1000000
SubDayMicros(part, n) == CASE part = "millisecond" -> (n % 1000) * 1000 [] part = "microsecond" -> n % 1000000 [] OTHER -> 0
StampStr(t, secs, us) == DateStr(t) \o "T" \o Pad2(secs \div 3600) \o ":" \o Pad2((secs % 3600) \div 60) \o ":" \o Pad2(secs % 60)
                         \o (IF us = 0 THEN "" ELSE "." \o Pad6(us))
\* ---------------------------------------------------------------- TO_DECIMAL / TO_NUMBER / TO_NUMERIC
\* x is the argument times 1000 (three fractional digits); result scaled by 10^s, rounded half AWAY from zero;
\* more than p - s integer digits is an error (NULL for the TRY_ form)
RoundAway(x, s) == LET f == Pow10(3 - s)  q == Abs(x) \div f  r == Abs(x) % f  up == IF 2 * r >= f THEN q + 1 ELSE q IN IF x < 0 THEN -up ELSE up
\* as built a NUMERIC argument is cast by the engine, which truncates toward zero
RoundEven(x, s) == LET f == Pow10(3 - s)  q == Abs(x) \div f IN IF x < 0 THEN -q ELSE q
Fits(v, p) == p >= 10 \/ Abs(v) < Pow10(p)        \* (the grid's values have at most 7 digits: every one fits p >= 10)
\* ---------------------------------------------------------------- strings as character sequences
Blank(c) == c = " "
RECURSIVE LStrip(_, _)
LStrip(s, cs) == IF s # <<>> /\ Head(s) \in cs THEN LStrip(Tail(s), cs) ELSE s
RECURSIVE RStrip(_, _)
RStrip(s, cs) == IF s # <<>> /\ s[Len(s)] \in cs THEN RStrip(SubSeq(s, 1, Len(s) - 1), cs) ELSE s
IsDigit(c) == c \in {"0", "1", "2", "3", "4", "5", "6", "7", "8", "9"}
IsLower(c) == c \in {"a", "b", "c", "d", "x"}
\* matches of three pattern shapes in s from (1-based) position pos, as <<start, end, groups>>, leftmost, non-overlapping
RECURSIVE DigitsEnd(_, _)
DigitsEnd(s, i) == IF i <= Len(s) /\ IsDigit(s[i]) THEN DigitsEnd(s, i + 1) ELSE i - 1      \* last index of the digit run starting at i
RECURSIVE Scan(_, _, _)
Scan(shape, s, i) ==
  IF i > Len(s) THEN <<>>
  ELSE IF shape = "digits" /\ IsDigit(s[i]) THEN LET e == DigitsEnd(s, i) IN << <<i, e, <<>>>> >> \o Scan(shape, s, e + 1)
  ELSE IF shape = "lit_b" /\ s[i] = "b" THEN << <<i, i, <<>>>> >> \o Scan(shape, s, i + 1)
  ELSE IF shape = "letter_digits" /\ IsLower(s[i]) /\ i < Len(s) /\ IsDigit(s[i + 1])
       THEN LET e == DigitsEnd(s, i + 1) IN << <<i, e, << <<i, i>>, <<i + 1, e>> >> >> >> \o Scan(shape, s, e + 1)
  ELSE Scan(shape, s, i + 1)
Pattern(shape) == CASE shape = "digits" -> "[0-9]+" [] shape = "lit_b" -> "b" [] shape = "letter_digits" -> "([a-z])([0-9]+)"
RECURSIVE ReplaceAll(_, _, _, _)
ReplaceAll(s, ms, repl, from) ==
  IF ms = <<>> THEN SubSeq(s, from, Len(s))
  ELSE SubSeq(s, from, Head(ms)[1] - 1) \o repl \o ReplaceAll(s, Tail(ms), repl, Head(ms)[2] + 1)

\* ---------------------------------------------------------------- results
Val(v, ty) == [res |-> "val", v |-> v, ty |-> ty]
Null == [res |-> "null", v |-> "", ty |-> "NoneType"]
Err == [res |-> "err", v |-> "", ty |-> ""]
InitSt == [x |-> 0]

Expected(op, D) ==
  CASE op.fn = "dateadd" ->
         {Val(DateStr(DateAdd(op.part, op.n, op.d)), "date")}
         \cup (IF "C10.dateadd_quarter_is_90_days" \in D /\ op.part = "quarter"
               THEN {Val(DateStr(CivilFromDays(DaysFromCivil(op.d[1], op.d[2], op.d[3]) + 90 * op.n)),
                         IF op.ctx \in {"insert", "update"} THEN "date" ELSE "datetime")}     \* a DATE column casts the timestamp back
               ELSE {})
    [] op.fn = "dateaddsub" ->
         LET secs == SubDaySecs(op.part, op.n)
             day == CivilFromDays(DaysFromCivil(op.d[1], op.d[2], op.d[3]) + secs \div 86400) IN
         {Val(StampStr(day, secs % 86400, SubDayMicros(op.part, op.n)), "datetime")}
    [] op.fn = "totimestamp" ->    \* TO_TIMESTAMP[_NTZ](1700000000 * 10^scale + fraction, scale): a NAIVE timestamp, whatever the scale
         {Val(IF op.scale = 0 THEN "2023-11-14T22:13:20" ELSE IF op.scale = 3 THEN "2023-11-14T22:13:20.123000" ELSE "2023-11-14T22:13:20.123456", "datetime")}
    [] op.fn = "datediff" ->
         {Val(IntStr(DateDiff(op.part, op.a, op.b)), "int")}
         \cup (IF "C10.datediff_week_not_monday_boundaries" \in D /\ op.part = "week"
               \* as built the engine's own date_diff('week'): not boundary counting - its value is not predicted, only its class
               THEN {[res |-> "val", v |-> "engine-week", ty |-> "int"]} ELSE {})
    [] op.fn = "todec" ->
         LET v == RoundAway(op.x, op.s)
             ok == Fits(v, op.p)
             e == RoundEven(op.x, op.s) IN
         {IF ok THEN Val(IntStr(v), "Decimal") ELSE IF op.try THEN Null ELSE Err}
         \cup (IF "C10.to_decimal_numeric_truncates" \in D /\ op.how = "num" /\ Fits(e, op.p) THEN {Val(IntStr(e), "Decimal")} ELSE {})
         \cup (IF "C10.to_decimal_overflow_not_rejected" \in D /\ ~ok /\ Abs(v) < Pow10(op.p + 1)
               THEN {Val(IntStr(IF op.how = "num" THEN e ELSE v), "Decimal")} ELSE {})
    [] op.fn = "todecbig" ->   \* an integer of 20 / 38 digits given as text: NUMBER(38,0) holds it exactly, in every spelling
         {Val(op.digits, "Decimal")}
    [] op.fn = "equalnull" ->
         {Val(IF op.a = op.b THEN "True" ELSE "False", "bool")}
    [] op.fn = "trim" ->
         LET cs == IF op.chars = <<>> THEN {" "} ELSE SeqToSet(op.chars)
             r == CASE op.which = "trim" -> RStrip(LStrip(op.s, cs), cs) [] op.which = "ltrim" -> LStrip(op.s, cs) [] op.which = "rtrim" -> RStrip(op.s, cs)
         IN {Val(Join(r), "str")}
            \* as built the characters argument is dropped: blanks are trimmed instead
            \cup (IF "C10.trim_chars_ignored" \in D /\ op.chars # <<>>
                  THEN {Val(Join(CASE op.which = "trim" -> RStrip(LStrip(op.s, {" "}), {" "}) [] op.which = "ltrim" -> LStrip(op.s, {" "})
                                   [] op.which = "rtrim" -> RStrip(op.s, {" "})), "str")} ELSE {})
    [] op.fn = "resub" ->    \* REGEXP_SUBSTR(subject, pattern, position, occurrence, 'e', group)
         LET ms == Scan(op.shape, op.s, op.pos) IN
         IF Len(ms) < op.occ THEN {Null}
         ELSE LET m == ms[op.occ] IN
              IF op.grp = 0 THEN {Val(Join(SubSeq(op.s, m[1], m[2])), "str")}
              ELSE IF Len(m[3]) < op.grp THEN {Null}
              ELSE {Val(Join(SubSeq(op.s, m[3][op.grp][1], m[3][op.grp][2])), "str")}
    [] op.fn = "rerep" ->    \* REGEXP_REPLACE(subject, pattern [, replacement]): every match is replaced
         {Val(Join(ReplaceAll(op.s, Scan(op.shape, op.s, 1), op.repl, 1)), "str")}
    [] op.fn = "relation" -> \* equalities that need no value oracle: hold ("True") for every argument
         {Val("True", "bool")}
         \cup (IF "C10.two_seeded_randoms_rejected" \in D /\ op.rel = "random_same_seed_equal" THEN {Err} ELSE {})
    [] op.fn = "valuescols" -> {Val(Join([j \in 1..op.n |-> "COLUMN" \o NatStr(j) \o (IF j < op.n THEN "," ELSE "")]), "str")}
    [] op.fn = "arrayagg" ->   \* values 1..n inserted in the order op.ins; WITHIN GROUP (ORDER BY x [DESC]) fixes the order
         LET asc == Range(1, op.n)  desc == [j \in 1..op.n |-> op.n + 1 - j] IN
         IF op.order = "asc" THEN {Val(Join([j \in 1..op.n |-> NatStr(asc[j]) \o (IF j < op.n THEN "," ELSE "")]), "list")}
         ELSE IF op.order = "desc" THEN {Val(Join([j \in 1..op.n |-> NatStr(desc[j]) \o (IF j < op.n THEN "," ELSE "")]), "list")}
         ELSE {[res |-> "val", v |-> "anyorder", ty |-> "list"]}

Steps(st, op, D) == {R(st, o) : o \in Expected(op, D)}

\* ---------------------------------------------------------------- the case space
CONSTANTS CtxUsed, Grid
Dates == IF Grid = "small" THEN {<<2024, 1, 31>>, <<2024, 2, 29>>, <<1970, 1, 1>>, <<1999, 12, 31>>}
         ELSE {<<1969, 12, 31>>, <<1970, 1, 1>>, <<1970, 1, 4>>, <<1970, 1, 5>>, <<1999, 12, 31>>, <<2000, 2, 29>>, <<2023, 12, 31>>, <<2024, 1, 1>>,
               <<2024, 1, 31>>, <<2024, 2, 28>>, <<2024, 2, 29>>, <<2024, 3, 31>>, <<2024, 11, 30>>, <<2024, 12, 31>>, <<2025, 2, 28>>,
               <<2100, 2, 28>>, <<1900, 3, 1>>, <<2024, 1, 6>>, <<2024, 1, 8>>}
Parts == {"year", "quarter", "month", "week", "day"}
Ns == IF Grid = "small" THEN {-1, 1, 12} ELSE {-13, -1, 0, 1, 3, 12, 25}
Subjects == {<<"a", "b", "1", "2", "c", "d", "3", "4", "5">>, <<"a", "1", "b", "2", "2">>, <<"x", "b", "b">>, <<>>, <<"1", "2">>}
TrimSubjects == {<<" ", " ", "a", " ", "b", " ", " ">>, <<"x", "x", "a", "x", "x">>, <<"a", "b", "c", "b", "a">>, <<" ">>, <<>>}
Xs == IF Grid = "small" THEN {2500, -2500, 125, 999990} ELSE {0, 500, 1500, 2500, -500, -1500, -2500, 125, 135, -125, 12345, 999990, 999949, -999990, 4, 5, 6}
Cases ==
  [fn : {"dateadd"}, part : Parts, n : Ns, d : Dates, ctx : CtxUsed]
  \cup [fn : {"datediff"}, part : Parts, a : Dates, b : Dates, ctx : {"select"}]
  \cup [fn : {"dateaddsub"}, part : {"hour", "second", "millisecond", "microsecond"}, n : {5, 1500}, d : {<<2024, 1, 31>>, <<1970, 1, 1>>, <<1969, 12, 31>>}, ctx : {"select", "where", "cte"}]
  \cup [fn : {"totimestamp"}, name : {"to_timestamp", "to_timestamp_ntz"}, scale : {0, 3, 6, 9}, ctx : {"select"}]
  \cup [fn : {"todec"}, name : {"to_decimal", "to_number", "to_numeric"}, how : {"str", "num"}, x : Xs, p : {4, 8}, s : {0, 1, 2}, try : BOOLEAN, ctx : {"select"}]
  \* precision and scale omitted (form "dflt": TO_NUMBER(x)) or a cast (form "cast": x::NUMBER): NUMBER(38,0); a FLOAT argument
  \cup [fn : {"todec"}, name : {"to_decimal", "to_number"}, how : {"str", "num", "flt"}, x : Xs, p : {38}, s : {0}, try : {FALSE}, form : {"dflt", "cast"}, ctx : {"select"}]
  \cup [fn : {"todec"}, name : {"to_decimal"}, how : {"str"}, x : Xs, p : {38}, s : {0}, try : {TRUE}, form : {"dflt"}, ctx : {"select"}]
  \cup [fn : {"todec"}, name : {"to_number"}, how : {"flt"}, x : Xs, p : {8}, s : {0, 1, 2}, try : {FALSE}, form : {"ps"}, ctx : {"select"}]
  \cup [fn : {"todecbig"}, name : {"to_decimal", "to_number", "to_numeric"}, digits : {"12345678901234567890", "99999999999999999999999999999999999999", "-12345678901234567890123"},
         try : BOOLEAN, form : {"dflt", "cast", "ps"}, ctx : {"select"}]
  \cup [fn : {"equalnull"}, a : {"null", "1", "2"}, b : {"null", "1", "2"}, ctx : CtxUsed]
  \cup [fn : {"trim"}, which : {"trim", "ltrim", "rtrim"}, s : TrimSubjects, chars : {<<>>, <<"x">>, <<"a", "b">>}, ctx : CtxUsed]
  \cup [fn : {"resub"}, shape : {"digits", "lit_b", "letter_digits"}, s : Subjects, pos : {1, 2, 5}, occ : {1, 2}, grp : {0, 1, 2}, ctx : {"select"}]
  \cup [fn : {"rerep"}, shape : {"digits", "lit_b", "letter_digits"}, s : Subjects, repl : {<<>>, <<"#">>}, ctx : CtxUsed]
  \* the construct nested in a call of its own kind that changes nothing: REGEXP_REPLACE(REGEXP_REPLACE(s, p, r), 'zzz', '')
  \cup [fn : {"rerep"}, shape : {"digits", "lit_b", "letter_digits"}, s : Subjects, repl : {<<>>, <<"#">>}, ctx : {"selfnested", "upper_nested"}]
  \cup [fn : {"relation"}, rel : {"sha2_default_256", "sha2_hex_same", "sha2_binary_unhex", "sha2_abc_fips", "sha2_empty_fips",
                                 "random_same_seed_repeatable", "random_seed0_repeatable", "random_same_seed_equal", "sample_seed_repeatable", "identifier_is_name",
                                 "join_alias_reuse", "join_alias_other_block", "sha2_binary_arg_rejected_or_right"}, ctx : {"select"}]
  \cup [fn : {"valuescols"}, n : 1..3, ctx : {"select"}]
  \cup [fn : {"arrayagg"}, n : 1..3, order : {"none", "asc", "desc"}, ctx : {"select"}]
Ops(st) == {o \in Cases : o.fn # "resub" \/ (o.grp = 0 \/ o.shape = "letter_digits")}

\* ---------------------------------------------------------------- C10 on the model: internal consistency of the oracle
StepOk(st, op, r) ==
  /\ r.post = st
  /\ (op.fn = "dateadd" /\ op.part = "day" =>
        \* DATEADD(day, DATEDIFF(day, a, b), a) = b  with b the result
        r.obs.v = DateStr(CivilFromDays(DaysFromCivil(op.d[1], op.d[2], op.d[3]) + op.n)) /\ r.obs.ty = "date")
  /\ (op.fn = "dateadd" /\ op.part \in {"month", "year", "quarter"} => r.obs.ty = "date"
        /\ DateDiff("month", op.d, DateAdd(op.part, op.n, op.d)) = op.n * (CASE op.part = "month" -> 1 [] op.part = "quarter" -> 3 [] op.part = "year" -> 12))
  /\ (op.fn = "datediff" => r.obs.v = IntStr(-DateDiff(op.part, op.b, op.a)))                    \* antisymmetric
  /\ (op.fn = "todec" /\ r.obs.res = "val" => r.obs.v = IntStr(-RoundAway(-op.x, op.s)))          \* symmetric rounding
  /\ (op.fn = "todec" => (r.obs.res = "val") = Fits(RoundAway(op.x, op.s), op.p))
  /\ (op.fn = "equalnull" => (r.obs.v = "True") = (op.a = op.b))
  /\ (op.fn = "trim" /\ op.chars # <<>> /\ op.s # <<>> /\ Head(op.s) \in SeqToSet(op.chars) /\ op.which \in {"trim", "ltrim"} => r.obs.v # Join(op.s))
  /\ (op.fn = "relation" => r.obs.res = "val")
=============================================================================
