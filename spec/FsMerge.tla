------------------------------- MODULE FsMerge -------------------------------
(* C12 - MERGE leaves the target as Snowflake's MERGE would, with true       *)
(* counts.                                                                   *)
(*                                                                           *)
(* Target t and source s are tables (id NUMBER, n NUMBER); a row is <<id, n>> *)
(* with id in {NULL, 1, 2} (NULL = 0 here) and n in {0, 1}.  ON t.id = s.id;  *)
(* a clause list is a sequence of                                            *)
(*   [k |-> "upd", c] : WHEN MATCHED [AND c] THEN UPDATE SET n = s.n          *)
(*   [k |-> "del", c] : WHEN MATCHED [AND c] THEN DELETE                      *)
(*   [k |-> "ins", c] : WHEN NOT MATCHED [AND c] THEN INSERT (id, n) VALUES (s.id, s.n) *)
(* with c in none | sn0 (s.n = 0) | tn0 (t.n = 0).                            *)
(* MergeIdeal is Snowflake's documented semantics for deterministic merges;  *)
(* AsBuilt transcribes transforms_merge.py (candidates = full outer join     *)
(* with first-true CASE; one DELETE / UPDATE / INSERT per clause, re-joined  *)
(* on the ON expression only; counts taken from the candidates).             *)
EXTENDS FsBase

AllDevs == {"C12.same_key_rows_all_hit", "C12.alias_or_qualified_source_unsupported", "C12.helper_table_visible",
            "C12.null_counts_without_candidates", "C12.set_expression_unsupported"}

NULL == 0
RowKinds == << <<NULL, 0>>, <<NULL, 1>>, <<1, 0>>, <<1, 1>>, <<2, 0>>, <<2, 1>> >>
NK == Len(RowKinds)
KindOf(row) == CHOOSE j \in 1..NK : RowKinds[j] = row
RECURSIVE SumSeq(_)
SumSeq(q) == IF q = <<>> THEN 0 ELSE Head(q) + SumSeq(Tail(q))
\* bag (count vector over RowKinds) <-> sequence of rows (canonical order)
RECURSIVE Rep(_, _)
Rep(x, n) == IF n = 0 THEN <<>> ELSE <<x>> \o Rep(x, n - 1)
RECURSIVE ExpandFrom(_, _)
ExpandFrom(bag, j) == IF j > NK THEN <<>> ELSE Rep(RowKinds[j], bag[j]) \o ExpandFrom(bag, j + 1)
Expand(bag) == ExpandFrom(bag, 1)
BagOf(q) == TLCEval([j \in 1..NK |-> Cardinality({i \in 1..Len(q) : q[i] = RowKinds[j]})])
EmptyBag == [j \in 1..NK |-> 0]

\* the ON clause: "id" is t.id = s.id; "id_tn0" is t.id = s.id AND t.n = 0 (a term on the target alone: target rows
\* that fail it are not matched by anything and must be left alone)
EqOn(on, t, s) == t[1] # NULL /\ s[1] # NULL /\ t[1] = s[1] /\ (on = "id_tn0" => t[2] = 0)           \* NULL never matches
CondT(c, t, s) == CASE c = "none" -> TRUE [] c = "sn0" -> s[2] = 0 [] c = "tn0" -> t[2] = 0
CondS(c, s) == CASE c = "none" -> TRUE [] c = "sn0" -> s[2] = 0 [] c = "tn0" -> FALSE
Idx(q) == 1..Len(q)
Matches(on, T, S, i) == {j \in Idx(S) : EqOn(on, T[i], S[j])}
Deterministic(on, T, S) == \A i \in Idx(T) : Cardinality(Matches(on, T, S, i)) <= 1
MinOf(a) == CHOOSE w \in a : \A w2 \in a : w <= w2
FirstM(cl, t, s) == LET a == {w \in Idx(cl) : cl[w].k # "ins" /\ CondT(cl[w].c, t, s)} IN IF a = {} THEN 0 ELSE MinOf(a)
FirstN(cl, s) == LET a == {w \in Idx(cl) : cl[w].k = "ins" /\ CondS(cl[w].c, s)} IN IF a = {} THEN 0 ELSE MinOf(a)
Has(cl, k) == \E w \in Idx(cl) : cl[w].k = k
Cnt(cl, k, n) == IF Has(cl, k) THEN n ELSE -1        \* a count column exists only for clause kinds that are present

\* ---------- ideal: per joined pair the first applicable clause; unmatched source rows inserted ----------
Ideal(on, T, S, cl) ==
  LET act(i) == LET m == Matches(on, T, S, i) IN
                IF m = {} THEN <<"keep", T[i]>>
                ELSE LET s == S[CHOOSE j \in m : TRUE]  w == FirstM(cl, T[i], s) IN
                     IF w = 0 THEN <<"keep", T[i]>>
                     ELSE IF cl[w].k = "del" THEN <<"del", T[i]>> ELSE <<"upd", <<T[i][1], s[2]>>>>
      acts == TLCEval([i \in Idx(T) |-> act(i)])
      unmatched == {j \in Idx(S) : ~\E i \in Idx(T) : EqOn(on, T[i], S[j])}
      ins == {j \in unmatched : FirstN(cl, S[j]) # 0}
  IN [bag |-> TLCEval([k \in 1..NK |-> Cardinality({i \in Idx(T) : acts[i][1] # "del" /\ acts[i][2] = RowKinds[k]})
                                       + Cardinality({j \in ins : S[j] = RowKinds[k]})]),
      ins |-> Cnt(cl, "ins", Cardinality(ins)),
      upd |-> Cnt(cl, "upd", Cardinality({i \in Idx(T) : acts[i][1] = "upd"})),
      del |-> Cnt(cl, "del", Cardinality({i \in Idx(T) : acts[i][1] = "del"}))]

\* ---------- as built ----------
Pairs(T, S) == {<<i, j>> : i \in Idx(T), j \in Idx(S)}
Joined(on, T, S) == {p \in Pairs(T, S) : EqOn(on, T[p[1]], S[p[2]])}
     \cup {<<i, 0>> : i \in {i \in Idx(T) : ~\E j \in Idx(S) : EqOn(on, T[i], S[j])}}
     \cup {<<0, j>> : j \in {j \in Idx(S) : ~\E i \in Idx(T) : EqOn(on, T[i], S[j])}}
Arm(cl, w, T, S, p) ==
  IF cl[w].k = "ins" THEN p[1] = 0 /\ CondS(cl[w].c, S[p[2]])          \* "target.rowid IS NULL [AND cond]"
  ELSE p[1] # 0 /\ p[2] # 0 /\ CondT(cl[w].c, T[p[1]], S[p[2]])        \* "ON [AND cond]"
OpOf(cl, T, S, p) == LET a == {w \in Idx(cl) : Arm(cl, w, T, S, p)} IN IF a = {} THEN 0 ELSE MinOf(a)
\* candidate rows: <<source index, clause index, target index>> (the last only keeps bag elements distinct)
Cands(on, cl, T, S) == {<<p[2], OpOf(cl, T, S, p), p[1]>> : p \in {q \in Joined(on, T, S) : q[2] # 0 /\ OpOf(cl, T, S, q) # 0}}
RECURSIVE Apply(_, _, _, _, _, _)
Apply(on, cl, w, cur, S, cands) ==
  IF w > Len(cl) THEN cur
  ELSE LET mine == {c \in cands : c[2] = w} IN
       IF cl[w].k = "del" THEN
            Apply(on, cl, w + 1, SelectSeq(cur, LAMBDA t : ~\E c \in mine : EqOn(on, t, S[c[1]])), S, cands)
       ELSE IF cl[w].k = "upd" THEN
            Apply(on, cl, w + 1, [i \in Idx(cur) |-> LET ms == {c \in mine : EqOn(on, cur[i], S[c[1]])} IN
                                             IF ms = {} THEN cur[i] ELSE <<cur[i][1], S[(CHOOSE c \in ms : TRUE)[1]][2]>>], S, cands)
       ELSE LET RECURSIVE Ins(_, _)
                Ins(q, js) == IF js = {} THEN q ELSE LET j == CHOOSE x \in js : TRUE IN Ins(Append(q, S[j[1]]), js \ {j})
            IN Apply(on, cl, w + 1, Ins(cur, mine), S, cands)
AsBuilt(on, T, S, cl) ==
  LET cands == Cands(on, cl, T, S)  fin == Apply(on, cl, 1, T, S, cands) IN
  [bag |-> BagOf(fin),
   ins |-> Cnt(cl, "ins", Cardinality({c \in cands : cl[c[2]].k = "ins"})),
   upd |-> Cnt(cl, "upd", Cardinality({c \in cands : cl[c[2]].k = "upd"})),
   del |-> Cnt(cl, "del", Cardinality({c \in cands : cl[c[2]].k = "del"}))]

\* ---- state / observations ----
InitSt == [t |-> EmptyBag, s |-> EmptyBag, made |-> FALSE, helper |-> FALSE]
\*  res: "ok" | "exc"; t, s: both tables read through a raw cursor; ins/upd/del: the status row (-1: no such column);
\*  helper: TRUE when an object named merge_candidates can be queried from the session afterwards
Obs(res, m, st2) == [res |-> res, t |-> st2.t, s |-> st2.s, ins |-> m.ins, upd |-> m.upd, del |-> m.del, helper |-> st2.helper]
NoCounts == [ins |-> -1, upd |-> -1, del |-> -1]
Unsupported == {"talias", "salias", "sq"}

OnOf(op) == IF "on" \in DOMAIN op THEN op.on ELSE "id"
TxOf(op) == IF "tx" \in DOMAIN op THEN op.tx ELSE "none"
Steps(st, op, D) ==
  CASE op.k = "setup" ->
         LET s2 == [t |-> BagOf(op.t), s |-> BagOf(op.s), made |-> TRUE, helper |-> st.helper] IN {R(s2, Obs("ok", NoCounts, s2))}
    [] op.k = "merge" ->
         LET T == Expand(st.t)  S == Expand(st.s)  on == OnOf(op)
             id == Ideal(on, T, S, op.cl)
             ab == AsBuilt(on, T, S, op.cl)
             hv == "C12.helper_table_visible" \in D
             \* tx: the MERGE runs between BEGIN and ROLLBACK / COMMIT: after a rollback none of its effects remain (the counts
             \* it reported are those of the statement)
             done(m) == LET s2 == [st EXCEPT !.t = IF TxOf(op) = "rollback" THEN st.t ELSE m.bag, !.helper = hv] IN R(s2, Obs("ok", m, s2))
         IN IF "C12.alias_or_qualified_source_unsupported" \in D /\ op.form \in Unsupported
            THEN {R(st, Obs("exc", NoCounts, st))}
            \* as built UPDATE SET accepts a bare source column only: any other expression fails in the generated UPDATE, after the
            \* clauses before it were applied (the vocabulary puts the UPDATE first; the aftermath is not modelled: the judge stops)
            ELSE IF "C12.set_expression_unsupported" \in D /\ op.form = "setexpr" /\ Has(op.cl, "upd")
            THEN {RT(s2, Obs("exc", NoCounts, s2)) : s2 \in {[st EXCEPT !.helper = h] : h \in BOOLEAN}}
            ELSE {done(id)} \cup (IF "C12.same_key_rows_all_hit" \in D /\ ab # id THEN {done(ab)} ELSE {})
                 \* as built the counts are SQL NULL (written -2) instead of 0 when no candidate row exists at all
                 \cup (IF "C12.null_counts_without_candidates" \in D /\ Cands(on, op.cl, T, S) = {}
                       THEN {done([id EXCEPT !.ins = IF @ = -1 THEN -1 ELSE -2, !.upd = IF @ = -1 THEN -1 ELSE -2,
                                             !.del = IF @ = -1 THEN -1 ELSE -2])} ELSE {})

\* ---- vocabulary ----
CONSTANTS MaxT, MaxS, MaxCl, CondsUsed, FormsUsed, OnUsed, TxUsed
RowSet == {RowKinds[j] : j \in 1..NK}
Sorted(q) == \A j \in 1..(Len(q) - 1) : KindOf(q[j]) <= KindOf(q[j + 1])
Tables(n) == {q \in SeqsUpTo(RowSet, n) : Sorted(q)}
Clauses == [k : {"upd", "del"}, c : CondsUsed] \cup [k : {"ins"}, c : CondsUsed \ {"tn0"}]
ClauseLists == SeqsUpTo(Clauses, MaxCl) \ {<<>>}
Ops(st) ==
  (IF st.made THEN {} ELSE {o \in [k : {"setup"}, t : Tables(MaxT), s : Tables(MaxS)] : Deterministic("id", o.t, o.s)})
  \cup (IF st.made THEN {o \in [k : {"merge"}, cl : ClauseLists, form : FormsUsed, kw : {"lower", "upper"}, on : OnUsed, tx : TxUsed] :
                          /\ Deterministic(o.on, Expand(st.t), Expand(st.s)) /\ SumSeq(st.t) <= MaxT + MaxS
                          /\ (o.form = "setexpr" => o.cl[1].k = "upd")} ELSE {})

\* ---- C12 on the model ----
StepOk(st, op, r) ==
  op.k = "merge" =>
    LET T == Expand(st.t)  S == Expand(st.s)  id == Ideal(OnOf(op), T, S, op.cl) IN
    /\ r.obs.res = "ok" /\ r.post.t = (IF TxOf(op) = "rollback" THEN st.t ELSE id.bag) /\ r.post.s = st.s      \* Snowflake's result, source untouched
    /\ r.obs.ins = id.ins /\ r.obs.upd = id.upd /\ r.obs.del = id.del           \* true counts
    /\ ~r.obs.helper                                                            \* no helper object visible
    \* counts equal the rows actually affected
    /\ (id.ins >= 0 /\ id.del >= 0 /\ TxOf(op) # "rollback" => SumSeq(r.post.t) = SumSeq(st.t) + id.ins - id.del)
=============================================================================
