------------------------------- MODULE FsServer ------------------------------
(* C17 - the HTTP server answers exactly like the in-process fake.           *)
(*                                                                           *)
(* Sessions are created by login requests; a session has its own current     *)
(* database and its own variables; sessions made in "shared" mode work on    *)
(* one instance (they see each other's tables), an "isolated" login gets an  *)
(* instance of its own.  A query is the in-process step of that session: the *)
(* driver runs every statement also on a mirrored in-process connection and  *)
(* reports which aspects differ ("same" when none does).  A request without  *)
(* or with an unknown token is refused with 401 and touches no session.      *)
EXTENDS FsBase

AllDevs == {"C17.scale0_number_int_vs_decimal", "C17.hugeint_result_http_500"}

CONSTANTS Db, Names, MaxSess, KindsUsed, OpKinds
InitSt == [sess |-> <<>>, ninst |-> 0, tables |-> {}]
\* a session: [inst |-> instance id (0 = the shared instance), db, var]
Obs(res, n) == [res |-> res, nsess |-> n]

Scale0Kinds == {"num38", "number_col"}
\* sch: whether the login names a schema (default TRUE); a session without one has a current database only
HasSch(x) == IF "sch" \in DOMAIN x THEN x.sch ELSE TRUE
Steps(st, op, D) ==
  LET n == Len(st.sess) IN
  CASE op.k = "login" ->
         LET inst == IF op.mode = "shared" THEN 0 ELSE st.ninst + 1
             s2 == [st EXCEPT !.sess = Append(@, [inst |-> inst, db |-> op.db, var |-> FALSE, sch |-> HasSch(op)]), !.ninst = IF op.mode = "shared" THEN @ ELSE @ + 1]
         IN {R(s2, Obs("ok", n + 1))}
    [] op.k = "create" ->    \* CREATE TABLE <name> (unqualified) in the session's database
         LET s == st.sess[op.t]  key == <<s.inst, s.db, op.name>> IN
         IF key \in st.tables THEN {R(st, Obs("exists", n))} ELSE {R([st EXCEPT !.tables = @ \cup {key}], Obs("ok", n))}
    [] op.k = "see" ->       \* SELECT ... FROM <name>: shared sessions see each other's tables, isolated ones only their own
         LET s == st.sess[op.t] IN {R(st, Obs(IF <<s.inst, s.db, op.name>> \in st.tables THEN "ok" ELSE "missing", n))}
    [] op.k = "setvar" -> {R([st EXCEPT !.sess[op.t].var = TRUE], Obs("ok", n))}
    [] op.k = "getvar" -> {R(st, Obs(IF st.sess[op.t].var THEN "ok" ELSE "undef", n))}
    [] op.k = "stmt" ->      \* any statement: same rows (values, classes), description, rowcount and error as in process
         {R(st, Obs("same", n))}
         \cup (IF "C17.scale0_number_int_vs_decimal" \in D /\ op.kind \in Scale0Kinds THEN {R(st, Obs("diff:rows", n))} ELSE {})
         \cup (IF "C17.hugeint_result_http_500" \in D /\ op.kind = "sum" THEN {R(st, Obs("diff:rows,desc,rowcount,error", n))} ELSE {})
    [] op.k = "reshape" ->   \* CREATE OR REPLACE TABLE shp with other columns: the same statement text now has another result shape
         {R(st, Obs("ok", n))}
    [] op.k = "badtoken" ->  \* refused, and no session is touched
         {R(st, Obs(IF op.w = "missing" THEN "401:390103" ELSE "401:390104", n))}

AllOps(st) ==
  LET S == 1..Len(st.sess) IN
  LET WithSch == {t \in S : HasSch(st.sess[t])} IN
  (IF Len(st.sess) < MaxSess THEN [k : {"login"}, mode : {"shared", "isolated"}, db : Db, sch : BOOLEAN] ELSE {})
  \* unqualified DDL / queries by name need a current schema: offered on sessions that have one
  \cup [k : {"create", "see"}, t : WithSch, name : Names] \cup [k : {"setvar", "getvar"}, t : S]
  \cup [k : {"stmt"}, t : S, kind : KindsUsed] \cup [k : {"badtoken"}, w : {"missing", "unknown"}] \cup [k : {"reshape"}, t : WithSch]

Ops(st) ==
  LET S == 1..Len(st.sess) IN
  {o \in AllOps(st) : o.k \in OpKinds}
StepOk(st, op, r) ==
  /\ (op.k = "stmt" => r.obs.res = "same" /\ r.post = st)
  /\ (op.k = "badtoken" => r.post = st)                                          \* 401 frame condition
  /\ (op.k = "see" => (r.obs.res = "ok") = (\E s \in {st.sess[op.t]} : <<s.inst, s.db, op.name>> \in st.tables))
  \* Isolated: a table made by an isolated session is invisible to every other session
  /\ (op.k = "create" /\ r.obs.res = "ok" =>
        \A j \in 1..Len(st.sess) : (j # op.t /\ (st.sess[j].inst # st.sess[op.t].inst \/ st.sess[j].db # st.sess[op.t].db))
              => (<<st.sess[j].inst, st.sess[j].db, op.name>> \in r.post.tables) = (<<st.sess[j].inst, st.sess[j].db, op.name>> \in st.tables))
  /\ (op.k \in {"setvar"} => \A j \in 1..Len(st.sess) : j # op.t => r.post.sess[j] = st.sess[j])
=============================================================================
