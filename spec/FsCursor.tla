------------------------------ MODULE FsCursor ------------------------------
(* C05 - the fetch protocol of one cursor.                                   *)
(*                                                                           *)
(* A result set is n rows in result order; row p is identified by position   *)
(* p in 1..n, cell (p, c) by column index c in 1..Width(shape).  The driver  *)
(* builds results whose cells are all distinguishable, so a delivered row is *)
(* observed as (position, sequence of column indexes).                       *)
(*                                                                           *)
(* Steps(st, op, D) is the set of allowed [post, obs] for operation op in    *)
(* state st; D is the set of active named deviations (D = {} is the ideal,   *)
(* i.e. exactly what property C05 allows; it is nondeterministic where the   *)
(* property is silent).                                                      *)
EXTENDS FsBase

AllDevs == {"C05.dup_names_tuple_width", "C05.description_follows_current_table"}

\* star0 / star1: SELECT * FROM shp - the SAME statement text - while shp has its first / its second layout (op "reshape")
Shapes == {"one", "three", "dup", "aliasdup", "quoted", "types", "dml", "star0", "star1"}
Names(sh) == CASE sh = "one"      -> <<"A">>
               [] sh = "three"    -> <<"A", "B", "C">>
               [] sh = "dup"      -> <<"A", "A">>
               [] sh = "aliasdup" -> <<"X", "B", "X">>
               [] sh = "quoted"   -> <<"My Col", "a">>
               [] sh = "types"    -> <<"ID", "S", "F", "B", "D", "TS", "N">>
               \* the one-row status result of a DML statement; its only cell is the affected count
               [] sh = "dml"      -> <<"number of rows inserted">>
               [] sh = "star0"    -> <<"ID", "NAME">>
               [] sh = "star1"    -> <<"ID", "LABEL", "SCORE">>
Width(sh) == Len(Names(sh))

NoCursor == [cur |-> "none", open |-> FALSE, n |-> 0, idx |-> 0, asz |-> 1, sh |-> "one", rc |-> -1, lay |-> 0]
InitSt == NoCursor

\* ---- observations (one shape for every operation) ----
\*  res   : "ok" | "rows" | "none" (fetchone at the end) | "noresult" | "err" | "descr"
\*  rows  : positions of the delivered rows, in delivery order (recorded traces carry them run-length encoded, as the
\*          maximal runs <<first, last>> of consecutive positions; FsCursorJudge!NormObs expands them again)
\*  cols  : for each element of a delivered row, the column it came from (same for every row of one call)
\*  names : dict rows: the keys, in order; pandas: the frame's columns; descr: the description names
\*  rc    : cursor.rowcount read right after the call (-1 for None)
Obs(res, rows, cols, names, rc) == [res |-> res, rows |-> rows, cols |-> cols, names |-> names, rc |-> rc]
Plain(res, st) == Obs(res, <<>>, <<>>, <<>>, st.rc)

\* dict rows: one value per distinct name; for a repeated name the property allows the value of any of
\* the equally named columns ("the same values keyed by the names")
DictCols(sh) ==
  LET nm == Names(sh)  keys == Dedup(nm) IN
  IF Len(keys) = Len(nm) THEN {Range(1, Len(nm))}      \* no repeated name: exactly the columns, in order
  ELSE {f \in [1..Len(keys) -> 1..Len(nm)] : \A j \in 1..Len(keys) : nm[f[j]] = keys[j]}

\* what a tuple row looks like when it is built from a dict of the row (cursor.py: tuple(d.values())):
\* one element per distinct name, holding the LAST equally named column
LastCols(sh) ==
  LET nm == Names(sh)  keys == Dedup(nm) IN
  [j \in 1..Len(keys) |-> CHOOSE c \in 1..Len(nm) : nm[c] = keys[j] /\ \A c2 \in (c + 1)..Len(nm) : nm[c2] # keys[j]]

HasDupNames(sh) == Len(Dedup(Names(sh))) # Width(sh)

\* delivering rows a..b of the current result
Deliver(st, a, b, D) ==
  LET rows == Range(a, Min(b, st.n))
      post == [st EXCEPT !.idx = Max(st.idx, Min(b, st.n))]
      empty == rows = <<>> IN
  IF st.cur = "tuple" THEN
       {R(post, Obs("rows", rows, IF empty THEN <<>> ELSE Range(1, Width(st.sh)), <<>>, st.rc))}
       \cup (IF "C05.dup_names_tuple_width" \in D /\ HasDupNames(st.sh) /\ ~empty
             THEN {R(post, Obs("rows", rows, LastCols(st.sh), <<>>, st.rc))} ELSE {})
  ELSE {R(post, Obs("rows", rows, IF empty THEN <<>> ELSE f, IF empty THEN <<>> ELSE Dedup(Names(st.sh)), st.rc))
          : f \in DictCols(st.sh)}

Steps(st, op, D) ==
  CASE op.k = "open" ->
         LET s2 == [NoCursor EXCEPT !.cur = IF op.dict THEN "dict" ELSE "tuple", !.lay = st.lay] IN {R(s2, Plain("ok", s2))}
    [] op.k = "exec" ->
         \* via "x": cursor.execute; "s1" / "s2": the statement is the first / last of a two-statement script given to
         \* connection.execute_string, and the cursor returned for it becomes the current cursor (a new cursor of the same
         \* class, default arraysize) - every statement of a script has its own cursor and its own result
         LET sh2 == IF op.sh = "star" THEN (IF st.lay = 0 THEN "star0" ELSE "star1") ELSE op.sh
             s2 == [st EXCEPT !.open = TRUE, !.n = op.n, !.idx = 0, !.sh = sh2, !.rc = op.n,
                              !.asz = IF op.via = "x" THEN @ ELSE 1] IN
         {R(s2, Plain("ok", s2))}
    [] op.k = "reshape" ->   \* the table behind SELECT * gets other columns; the result the cursor holds is not affected
         LET s2 == [st EXCEPT !.lay = 1 - @] IN {R(s2, Plain("ok", s2))}
    [] op.k = "dml" ->
         \* a DML statement affecting op.a rows: one status row holding the count, rowcount = the count
         LET s2 == [st EXCEPT !.open = TRUE, !.n = 1, !.idx = 0, !.sh = "dml", !.rc = op.a] IN
         {R(s2, Plain("ok", s2))}
    [] op.k = "execfail" ->
         \* the property only says a NEW result replaces the old one; a failed execute may keep or drop it
         LET s2 == [st EXCEPT !.open = FALSE, !.n = 0, !.idx = 0, !.rc = -1] IN
         {R(st, Plain("err", st)), R(s2, Plain("err", s2))}
    [] op.k = "asz" -> LET s2 == [st EXCEPT !.asz = op.a] IN {R(s2, Plain("ok", s2))}
    [] op.k = "one" ->
         IF ~st.open THEN {R(st, Plain("noresult", st))}
         ELSE IF st.idx >= st.n THEN {R(st, Plain("none", st))}
         ELSE Deliver(st, st.idx + 1, st.idx + 1, D)
    [] op.k = "many" ->
         IF ~st.open THEN {R(st, Plain("noresult", st))} ELSE Deliver(st, st.idx + 1, st.idx + op.size, D)
    [] op.k = "manydef" ->
         IF ~st.open THEN {R(st, Plain("noresult", st))} ELSE Deliver(st, st.idx + 1, st.idx + st.asz, D)
    [] op.k = "all" ->
         IF ~st.open THEN {R(st, Plain("noresult", st))} ELSE Deliver(st, st.idx + 1, st.n, D)
    [] op.k = "pandas" ->
         \* "agrees with those rows" and with rowcount: the whole result, wherever the fetch index stands (the connector builds
         \* the frame from all batches of the result set); whether it also drains the row iterator is not fixed
         IF ~st.open THEN {R(st, Plain("noresult", st))}
         ELSE {R(p, Obs("rows", Range(1, st.n), IF st.n = 0 THEN <<>> ELSE Range(1, Width(st.sh)), Names(st.sh), st.rc))
                 : p \in {st, [st EXCEPT !.idx = st.n]}}
    [] op.k = "descr" ->
         \* reading description is a stutter step; defined here only with a result set (C06 covers the rest)
         {R(st, Obs("descr", <<>>, <<>>, Names(st.sh), st.rc))}
         \* as built description is computed when it is READ, by describing the statement text again: after the table behind
         \* SELECT * got other columns it names those, not the columns of the result the cursor holds
         \cup (IF "C05.description_follows_current_table" \in D /\ st.sh \in {"star0", "star1"} /\ st.sh # (IF st.lay = 0 THEN "star0" ELSE "star1")
               THEN {R(st, Obs("descr", <<>>, <<>>, Names(IF st.lay = 0 THEN "star0" ELSE "star1"), st.rc))} ELSE {})

\* ---- operations offered in a state (generator vocabulary) ----
\* Steps above is written for ANY number of rows, fetch size and arraysize (plain arithmetic on n, idx, size, asz).  The
\* bounded vocabulary below picks them as multiples of Scale: Scale = 1 gives the small results (0..MaxN rows); a large
\* Scale that is not a round number (997) gives results of thousands of rows - larger than any batch / chunk / window an
\* implementation may cut a result into - with the same abstract state graph.  fetchone still advances by ONE row, so the
\* fetches of a behaviour start and end at every offset relative to such internal boundaries.
CONSTANTS MinN, MaxN, MaxK, MaxA, ShapesUsed, ViaUsed, OpsUsed, Scale
AllOps(st) ==
  IF st.cur = "none" THEN [k : {"open"}, dict : BOOLEAN]
  ELSE [k : {"reshape"}] \cup [k : {"exec"}, n : {m * Scale : m \in MinN..MaxN}, sh : ShapesUsed, via : ViaUsed] \cup [k : {"dml"}, a : 0..2]
       \cup [k : {"execfail", "one", "manydef", "all", "pandas"}]
       \cup [k : {"many"}, size : {m * Scale : m \in 1..MaxK}] \cup [k : {"asz"}, a : {m * Scale : m \in 1..MaxA}]
       \cup (IF st.open THEN [k : {"descr"}] ELSE {})

Ops(st) == {o \in AllOps(st) : o.k \in OpsUsed}

\* ---- the property, as predicates over a step ----
\* ExactlyOnce / InOrder: every fetch delivers exactly the next undelivered positions
StepOk(st, op, r) ==
  /\ (op.k \in {"one", "many", "manydef", "all"} /\ st.open) =>
        /\ r.obs.rows = Range(st.idx + 1, r.post.idx)
        /\ r.post.idx <= st.n /\ r.post.idx >= st.idx
        /\ (op.k = "all" => r.post.idx = st.n)
        /\ (r.obs.rows # <<>> /\ st.cur = "tuple" => Len(r.obs.cols) = Width(st.sh))
  /\ (op.k \notin {"exec", "dml", "execfail", "open"} => r.post.n = st.n /\ r.post.sh = st.sh /\ r.post.open = st.open)
  /\ (op.k = "reshape" => r.post.idx = st.idx)
  /\ (op.k = "descr" => r.post = st)
=============================================================================
