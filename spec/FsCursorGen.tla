---------------------------- MODULE FsCursorGen -----------------------------
(* Model checking and behaviour generation for FsCursor (C05).               *)
EXTENDS FsCursor, Json
CONSTANTS Devs,      \* active deviations: {} = the ideal specification
          Depth      \* bound on the length of a behaviour
VARIABLES st,        \* abstract cursor state
          deliv,     \* history variable: positions delivered by fetch calls since the last execute
          hist       \* history variable: the operations so far (what gets replayed on the implementation)
vars == <<st, deliv, hist>>

Init == st = InitSt /\ deliv = <<>> /\ hist = <<>>

Do(op) == \E r \in Steps(st, op, Devs) :
            /\ st' = r.post
            /\ deliv' = IF op.k \in {"exec", "dml", "open"} \/ (op.k = "execfail" /\ r.post # st) THEN <<>>
                        ELSE IF op.k \in {"one", "many", "manydef", "all"} THEN deliv \o r.obs.rows ELSE deliv
            /\ hist' = Append(hist, op)

\* one named action per public call, so that -coverage shows which were exercised
Open        == \E op \in {o \in Ops(st) : o.k = "open"} : Do(op)
Execute     == \E op \in {o \in Ops(st) : o.k \in {"exec", "dml", "reshape"}} : Do(op)
ExecuteFail == \E op \in {o \in Ops(st) : o.k = "execfail"} : Do(op)
FetchOne    == \E op \in {o \in Ops(st) : o.k = "one"} : Do(op)
FetchMany   == \E op \in {o \in Ops(st) : o.k = "many"} : Do(op)
FetchManyDefault == \E op \in {o \in Ops(st) : o.k = "manydef"} : Do(op)
FetchAll    == \E op \in {o \in Ops(st) : o.k = "all"} : Do(op)
SetArraysize == \E op \in {o \in Ops(st) : o.k = "asz"} : Do(op)
FetchPandasAll == \E op \in {o \in Ops(st) : o.k = "pandas"} : Do(op)
ReadDescription == \E op \in {o \in Ops(st) : o.k = "descr"} : Do(op)
Next == Open \/ Execute \/ ExecuteFail \/ FetchOne \/ FetchMany \/ FetchManyDefault \/ FetchAll
        \/ SetArraysize \/ FetchPandasAll \/ ReadDescription
\* random walks (-simulate): ordinary steps up to Depth operations, then one step that prints the walk (exactly one
\* candidate successor there, so exactly one line per walk)
WalkEnd == Len(hist) = Depth /\ PrintT(<<"B", ToJson(hist)>>) /\ hist' = Append(hist, [k |-> "end"]) /\ UNCHANGED <<st, deliv>>
NextWalk == (Len(hist) < Depth /\ Next) \/ WalkEnd
\* the same walks with one disjunct per public call: -simulate first picks a disjunct, then one of its successors, so a walk is
\* not dominated by the call with the most argument combinations (execute: rows x shapes x channels).  A successful SELECT
\* is listed three times: fetching is only interesting while there is a result set
Upto(A) == Len(hist) < Depth /\ A
ExecSelect == \E op \in {o \in Ops(st) : o.k = "exec"} : Do(op)
ExecOther  == \E op \in {o \in Ops(st) : o.k \in {"dml", "reshape"}} : Do(op)
NextWalkByCall == Upto(Open) \/ Upto(ExecSelect) \/ Upto(ExecSelect) \/ Upto(ExecSelect) \/ Upto(ExecOther) \/ Upto(ExecuteFail)
                  \/ Upto(FetchOne) \/ Upto(FetchMany) \/ Upto(FetchManyDefault) \/ Upto(FetchAll) \/ Upto(FetchPandasAll)
                  \/ Upto(SetArraysize) \/ Upto(ReadDescription) \/ WalkEnd
Spec == Init /\ [][Next]_vars

\* ---- C05 on the model ----
\* every step the specification allows from a reachable state satisfies the per-step clauses
StepInv == \A op \in Ops(st) : \A r \in Steps(st, op, Devs) : StepOk(st, op, r)
\* ExactlyOnce, in order: what fetch calls have handed out so far is exactly rows 1..idx
\* (fetch_pandas_all may drain the cursor without going through deliv, hence the prefix form)
ExactlyOnce == st.open => /\ Len(deliv) <= st.idx /\ deliv = Range(1, Len(deliv))
                          /\ st.idx <= st.n
\* Drained: once everything is delivered, no step can deliver anything any more
Drained == (st.open /\ st.idx = st.n) =>
              \A op \in {o \in Ops(st) : o.k \in {"one", "many", "manydef", "all"}} :
                 \A r \in Steps(st, op, Devs) : r.obs.rows = <<>> /\ r.post.idx = st.n
NoResult == (st.cur # "none" /\ ~st.open) =>
              \A op \in {o \in Ops(st) : o.k \in {"one", "many", "manydef", "all", "pandas"}} :
                 \A r \in Steps(st, op, Devs) : r.obs.res = "noresult" /\ r.post = st
\* description names the columns of the result the cursor holds
DescrOfResult == \A op \in {o \in Ops(st) : o.k = "descr"} : \A r \in Steps(st, op, Devs) : r.obs.names = Names(st.sh)
\* a new execute replaces the old result completely
Replace == \A op \in {o \in Ops(st) : o.k = "exec"} : \A r \in Steps(st, op, Devs) :
              r.post.idx = 0 /\ r.post.n = op.n /\ r.post.sh = op.sh /\ r.post.open /\ (op.via = "x" => r.post.asz = st.asz)
\* the fetch index never goes backwards between executes
Monotone == [][(st'.open /\ st.open /\ hist' # hist /\ hist'[Len(hist')].k \notin {"exec", "dml", "execfail", "open"})
                  => st'.idx >= st.idx]_vars

Bound == Len(hist) < Depth
ViewSt == <<st, deliv>>          \* model checking / transition cover: histories are invisible
EmitAll == PrintT(<<"B", ToJson(hist')>>)
\* -simulate: evaluated as an INVARIANT, i.e. only on the states TLC actually walks through: one print per walk
EmitInv == Len(hist) = Depth => PrintT(<<"B", ToJson(hist)>>)
EmitEnd == Len(hist') = Depth => PrintT(<<"B", ToJson(hist')>>)
=============================================================================
