-------------------------------- MODULE FsConc --------------------------------
(* C19 - concurrent sessions behave as if their statements ran one at a time.*)
(*                                                                           *)
(* Part 1 (this module's Init/Next): the interleaving model.  Two sessions   *)
(* each run one fakesnow statement that is carried out in several engine     *)
(* calls (the as-built decomposition, from the engine-call log); an engine   *)
(* call is atomic, anything may happen between two of them.                  *)
(*   connect(db, schema):  check db -> [attach] -> check schema -> [create schema] -> set schema *)
(*   create table with comment and VARCHAR length:  create -> comment row -> length rows         *)
(*   read metadata of that table (one call)                                                      *)
(* TLC explores every interleaving and checks that no statement fails and    *)
(* that no session observes another session's statement half-done.           *)
(* IfNotExists / AtomicMeta select the as-built variants:                    *)
(*   IfNotExists = FALSE is the tree before the fix (TLC finds the race),    *)
(*   AtomicMeta = FALSE is the current tree (recorded deviation).            *)
(* Part 2: Steps/Ops - schedules with at most two preemptions, replayed on   *)
(* real threads by the deterministic scheduler, outcome = a serial outcome.  *)
EXTENDS FsBase
CONSTANTS IfNotExists, AtomicMeta, Work1, Work2        \* what each session does: "connect" | "ctmeta" | "readmeta"
Work == <<Work1, Work2>>

VARIABLES pc, dbOk, scOk, sawDb, sawSc, err, tab, partial
cvars == <<pc, dbOk, scOk, sawDb, sawSc, err, tab, partial>>
Sess == {1, 2}
CInit == /\ pc = [s \in Sess |-> "start"] /\ dbOk = FALSE /\ scOk = FALSE /\ sawDb = [s \in Sess |-> FALSE] /\ sawSc = [s \in Sess |-> FALSE]
         /\ err = [s \in Sess |-> FALSE] /\ tab = "none" /\ partial = FALSE
Goto(s, l) == pc' = [pc EXCEPT ![s] = l]
\* ---- connect ----
CheckDb(s) == pc[s] = "start" /\ Work[s] = "connect" /\ sawDb' = [sawDb EXCEPT ![s] = dbOk] /\ Goto(s, "attach") /\ UNCHANGED <<dbOk, scOk, sawSc, err, tab, partial>>
Attach(s) == /\ pc[s] = "attach"
             /\ IF sawDb[s] THEN Goto(s, "checksc") /\ UNCHANGED <<dbOk, err>>
                ELSE IF dbOk /\ ~IfNotExists THEN err' = [err EXCEPT ![s] = TRUE] /\ Goto(s, "done") /\ UNCHANGED dbOk     \* "database already exists"
                ELSE dbOk' = TRUE /\ Goto(s, "checksc") /\ UNCHANGED err
             /\ UNCHANGED <<scOk, sawDb, sawSc, tab, partial>>
CheckSc(s) == pc[s] = "checksc" /\ sawSc' = [sawSc EXCEPT ![s] = scOk] /\ Goto(s, "createsc") /\ UNCHANGED <<dbOk, scOk, sawDb, err, tab, partial>>
CreateSc(s) == /\ pc[s] = "createsc"
               /\ IF sawSc[s] THEN Goto(s, "setsc") /\ UNCHANGED <<scOk, err>>
                  ELSE IF scOk /\ ~IfNotExists THEN err' = [err EXCEPT ![s] = TRUE] /\ Goto(s, "done") /\ UNCHANGED scOk    \* "Schema already exists"
                  ELSE scOk' = TRUE /\ Goto(s, "setsc") /\ UNCHANGED err
               /\ UNCHANGED <<dbOk, sawDb, sawSc, tab, partial>>
SetSc(s) == pc[s] = "setsc" /\ Goto(s, "done") /\ UNCHANGED <<dbOk, scOk, sawDb, sawSc, err, tab, partial>>
\* ---- create table with metadata / reader ----
CtCreate(s) == pc[s] = "start" /\ Work[s] = "ctmeta" /\ tab' = (IF AtomicMeta THEN "full" ELSE "bare") /\ Goto(s, IF AtomicMeta THEN "done" ELSE "ctcomment")
               /\ UNCHANGED <<dbOk, scOk, sawDb, sawSc, err, partial>>
CtComment(s) == pc[s] = "ctcomment" /\ tab' = "commented" /\ Goto(s, "ctlen") /\ UNCHANGED <<dbOk, scOk, sawDb, sawSc, err, partial>>
CtLen(s) == pc[s] = "ctlen" /\ tab' = "full" /\ Goto(s, "done") /\ UNCHANGED <<dbOk, scOk, sawDb, sawSc, err, partial>>
ReadMeta(s) == pc[s] = "start" /\ Work[s] = "readmeta" /\ partial' = (partial \/ tab \in {"bare", "commented"}) /\ Goto(s, "done")
               /\ UNCHANGED <<dbOk, scOk, sawDb, sawSc, err, tab>>
CNext == \E s \in Sess : CheckDb(s) \/ Attach(s) \/ CheckSc(s) \/ CreateSc(s) \/ SetSc(s) \/ CtCreate(s) \/ CtComment(s) \/ CtLen(s) \/ ReadMeta(s)
\* all succeed; nothing is observed half-done; and at the end the outcome is that of a serial order
NoError == \A s \in Sess : ~err[s]
NoHalfDone == ~partial
Serializable == (\A s \in Sess : pc[s] = "done") =>
                  /\ (\E s \in Sess : Work[s] = "connect") => (dbOk /\ scOk)
                  /\ (\E s \in Sess : Work[s] = "ctmeta") => tab = "full"

\* ---------------------------------------------------------------------------------------------------- Part 2: schedules
AllDevs == {"C19.create_table_metadata_seen_half_done"}
InitSt == [x |-> 0]
Pairs == {"txpk|txpk", "none|readinfo", "none|none", "ins|ins", "ctmeta|readmeta", "merge|merge", "ctmeta|ctmeta", "conn|connother", "comment|comment",
          "mergefail|merge", "nodbsel|nodbsel", "connlow|connup"}
\*  errs: statements that raised; hang; rows: rows of the shared tables; vsum: the sum of their values; tabs: user tables made;
\*  schemas: user schemas of D1; partial: metadata seen half-done; foreign: a session received a result that is not its own
VSum(pair) == CASE pair = "ins|ins" -> 3 [] pair = "merge|merge" -> 33 [] pair = "txpk|txpk" -> 7 [] pair = "mergefail|merge" -> 22 [] pair = "nodbsel|nodbsel" -> 3 [] OTHER -> 0
Obs(errs, rows, tabs, schemas, pt) == [errs |-> errs, hang |-> FALSE, rows |-> rows, tabs |-> tabs, schemas |-> schemas, partial |-> pt, foreign |-> FALSE, vsum |-> 0]
Serial(pair) ==
  CASE pair \in {"none|none", "none|readinfo"} -> Obs(0, 0, 0, 1, FALSE) [] pair = "ins|ins" -> Obs(0, 2, 0, 1, FALSE) [] pair = "ctmeta|readmeta" -> Obs(0, 0, 1, 0, FALSE)
    [] pair = "merge|merge" -> Obs(0, 2, 0, 1, FALSE) [] pair = "ctmeta|ctmeta" -> Obs(0, 0, 2, 0, FALSE) [] pair = "conn|connother" -> Obs(0, 0, 0, 2, FALSE)
    [] pair = "comment|comment" -> Obs(0, 0, 0, 1, FALSE)
    \* both insert the same primary key inside a transaction: in every serial order the second one fails and one row exists
    [] pair = "txpk|txpk" -> Obs(1, 1, 0, 1, FALSE)
    \* a MERGE that fails (its source does not exist) next to one that succeeds: one error, the other's row, nobody waits for ever
    [] pair = "mergefail|merge" -> Obs(1, 1, 0, 1, FALSE)
    \* two sessions that connected WITHOUT a database: INSERT own value, SELECT own constant - each gets its own result
    [] pair = "nodbsel|nodbsel" -> Obs(0, 2, 0, 0, FALSE)
    \* both auto-create the same new database, one naming it d9 and the other D9: one database, both succeed
    [] pair = "connlow|connup" -> Obs(0, 0, 0, 0, FALSE)
Outcome(pair) == [Serial(pair) EXCEPT !.vsum = VSum(pair)]
Steps(st, op, D) ==
  {R(st, Outcome(op.pair))}
  \cup (IF "C19.create_table_metadata_seen_half_done" \in D /\ op.pair = "ctmeta|readmeta" THEN {R(st, [Outcome(op.pair) EXCEPT !.partial = TRUE])} ELSE {})
CONSTANTS MaxP
Ops(st) == [k : {"sched"}, pair : Pairs, first : {1, 2}, p1 : 0..MaxP, p2 : 0..MaxP]
StepOk(st, op, r) == r.obs = Outcome(op.pair)
=============================================================================
