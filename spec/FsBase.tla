------------------------------- MODULE FsBase -------------------------------
(* Small helpers shared by every fakesnow specification module.              *)
EXTENDS Naturals, Integers, Sequences, FiniteSets, TLC

Min(a, b) == IF a < b THEN a ELSE b
Max(a, b) == IF a > b THEN a ELSE b

\* <<a, a+1, ..., b>>  (empty when a > b)
Range(a, b) == [j \in 1..(IF b >= a THEN b - a + 1 ELSE 0) |-> a + j - 1]

SeqToSet(q) == {q[j] : j \in 1..Len(q)}

\* total slice (SubSeq errors outside the domain)
Slice(s, a, b) == IF a > Min(b, Len(s)) THEN <<>> ELSE SubSeq(s, Max(a, 1), Min(b, Len(s)))

\* positions of the first occurrence of every distinct element, in order
FirstOcc(q) == SelectSeq(Range(1, Len(q)), LAMBDA j : \A h \in 1..(j - 1) : q[h] # q[j])
Dedup(q) == [j \in 1..Len(FirstOcc(q)) |-> q[FirstOcc(q)[j]]]

\* all sequences over S of length <= n
SeqsUpTo(S, n) == UNION {[1..m -> S] : m \in 0..n}

\* result constructors of the functional cores: Steps(st, op, D) is a set of these
\*   post : abstract state after the step
\*   obs  : what the caller observes
\*   term : TRUE when the as-built aftermath is not modelled (judge stops after this step)
R(post, obs)  == [post |-> post, obs |-> obs, term |-> FALSE]
RT(post, obs) == [post |-> post, obs |-> obs, term |-> TRUE]
=============================================================================
