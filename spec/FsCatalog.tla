------------------------------ MODULE FsCatalog ------------------------------
(* C09 - metadata views always describe exactly the current user objects.    *)
(*                                                                           *)
(* The live catalog of one database: schemas S1 (always) and S2, and per key *)
(* <<schema, name>> at most one table or view with ordered columns           *)
(* <<name, type, not null>> and a comment.  Every metadata view is a         *)
(* function of this catalog only.  ext* are the AS-BUILT side tables         *)
(* (_fs_tables_ext, _fs_columns_ext): upsert-only maps keyed by names, which *)
(* the recorded deviations read instead of the catalog.                      *)
EXTENDS FsBase

AllDevs == {"C09.comment_read_from_stale_side_table", "C09.length_read_from_side_table", "C09.clone_loses_not_null",
            "C09.internal_objects_listed"}

Schemas == {"S1", "S2"}
TNames == {"T", "U"}
VName == "V"
Keys == Schemas \X (TNames \cup {VName})
ColNames == {"A", "B", "C"}
\* column types: declared type -> what the views must say
DataType(t) == CASE t \in {"int", "num102", "num10"} -> "NUMBER" [] t \in {"vc", "vc5", "vc7"} -> "TEXT" [] t = "flt" -> "FLOAT" [] t = "bool" -> "BOOLEAN"
DescType(t) == CASE t = "int" -> "NUMBER(38,0)" [] t = "num102" -> "NUMBER(10,2)" [] t = "num10" -> "NUMBER(10,0)" [] t = "vc" -> "VARCHAR(16777216)" [] t = "vc5" -> "VARCHAR(5)"
                 [] t = "vc7" -> "VARCHAR(7)" [] t = "flt" -> "FLOAT" [] t = "bool" -> "BOOLEAN"
TLen(t) == CASE t = "vc" -> 16777216 [] t = "vc5" -> 5 [] t = "vc7" -> 7 [] OTHER -> -1
Prec(t) == CASE t = "int" -> 38 [] t \in {"num102", "num10"} -> 10 [] OTHER -> -1
Scale(t) == CASE t \in {"int", "num10"} -> 0 [] t = "num102" -> 2 [] OTHER -> -1
TCode(t) == CASE t \in {"int", "num102", "num10"} -> 0 [] t \in {"vc", "vc5", "vc7"} -> 2 [] t = "flt" -> 1 [] t = "bool" -> 13
IsText(t) == t \in {"vc", "vc5", "vc7"}
Shape(sh) == CASE sh = "sh1" -> << <<"A", "vc5", FALSE>>, <<"B", "num102", TRUE>> >>
               [] sh = "sh2" -> << <<"A", "vc", FALSE>>, <<"B", "int", FALSE>>, <<"C", "flt", FALSE>> >>
               [] sh = "sh3" -> << <<"A", "bool", FALSE>>, <<"B", "num10", FALSE>> >>       \* num10: the one-parameter spelling NUMBER(10)
NoObj == [e |-> FALSE, kind |-> "T", cols |-> <<>>, cmt |-> ""]
NOROW == "<norow>"
InitSt == [tx |-> FALSE, s2 |-> FALSE, obj |-> [k \in Keys |-> NoObj],
           extc |-> [k \in Keys |-> NOROW],                                   \* as-built comment rows
           extl |-> [k \in Keys |-> [c \in ColNames |-> -2]]]                 \* as-built length rows (-2: no row)
Exists(st, k) == st.obj[k].e /\ (k[1] = "S1" \/ st.s2)
ColIdx(cols, c) == CHOOSE j \in 1..Len(cols) : cols[j][1] = c
HasCol(cols, c) == \E j \in 1..Len(cols) : cols[j][1] = c

\* ---- as-built bookkeeping done by a statement that declares columns (text_lengths) / a comment (table_comment) ----
PutLens(extl, k, cols) == [extl EXCEPT ![k] = [c \in ColNames |-> IF HasCol(cols, c) /\ IsText(cols[ColIdx(cols, c)][2])
                                                               THEN TLen(cols[ColIdx(cols, c)][2]) ELSE @[c]]]
PutCmt(extc, k, cmt) == IF cmt = "" THEN extc ELSE [extc EXCEPT ![k] = cmt]

\* ---- observations: every read returns [res, v] ----
Obs(res, v) == [res |-> res, v |-> v]
OK == Obs("ok", <<>>)
\* how a comment / length is shown: ideal from the catalog, as built from the side tables
CmtOf(st, k, D) == IF "C09.comment_read_from_stale_side_table" \in D THEN (IF st.extc[k] = NOROW THEN "" ELSE st.extc[k]) ELSE st.obj[k].cmt
LenOf(st, k, col, t, D, fallback) ==        \* fallback: what is shown without a side row (information_schema: NULL = -1, DESCRIBE: 16777216)
  \* as built: whatever row the side table holds for (table, column) by NAME - even for a column that is no longer text
  IF "C09.length_read_from_side_table" \in D THEN (IF st.extl[k][col] = -2 THEN (IF IsText(t) THEN fallback ELSE -1) ELSE st.extl[k][col])
  ELSE IF ~IsText(t) THEN -1
  ELSE TLen(t)
NullOf(st, k, j, D) == st.obj[k].cols[j][3]

Views(st, op, D) ==
  CASE op.k = "ist" ->     \* information_schema.tables of the database: <<schema, name, kind, comment>>
         {Obs("ok", {<<k[1], k[2], st.obj[k].kind, CmtOf(st, k, D)>> : k \in {x \in Keys : Exists(st, x)}})}
    [] op.k = "isc" ->     \* information_schema.columns of one object, in ordinal order
         LET k == op.key  cols == st.obj[k].cols IN
         IF ~Exists(st, k) THEN {Obs("ok", <<>>)}
         ELSE {Obs("ok", [j \in 1..Len(cols) |-> <<cols[j][1], j, IF cols[j][3] THEN "NO" ELSE "YES", DataType(cols[j][2]),
                                                    LenOf(st, k, cols[j][1], cols[j][2], D, -1), Prec(cols[j][2]), Scale(cols[j][2])>>])}
    [] op.k = "desc" ->    \* DESCRIBE TABLE / VIEW
         LET k == op.key  cols == st.obj[k].cols IN
         IF ~Exists(st, k) THEN {Obs("missing", <<>>)}
         ELSE {Obs("ok", [j \in 1..Len(cols) |-> <<cols[j][1],
                           IF IsText(cols[j][2]) THEN "VARCHAR(" \o ToString(LenOf(st, k, cols[j][1], cols[j][2], D, 16777216)) \o ")" ELSE DescType(cols[j][2]),
                           IF cols[j][3] THEN "N" ELSE "Y">>])}
    [] op.k = "star" ->    \* description of SELECT * : names and type codes in column order
         LET k == op.key  cols == st.obj[k].cols IN
         IF ~Exists(st, k) THEN {Obs("missing", <<>>)} ELSE {Obs("ok", [j \in 1..Len(cols) |-> <<cols[j][1], TCode(cols[j][2])>>])}
    [] op.k = "show" ->    \* SHOW TABLES / OBJECTS in a scope: <<name, kind, schema>> of user objects; internals: anything else listed
         LET inScope(k) == op.scope \in {"account", "database"} \/ k[1] = op.scope
             rows == {<<k[2], IF st.obj[k].kind = "T" THEN "TABLE" ELSE "VIEW", k[1]>> :
                        k \in {x \in Keys : Exists(st, x) /\ inScope(x) /\ (op.what = "objects" \/ st.obj[x].kind = "T")}} IN
         {Obs("clean", rows)}
         \cup (IF "C09.internal_objects_listed" \in D /\ op.scope \in {"account", "database"} THEN {Obs("internals", rows)} ELSE {})
    [] op.k = "isv" -> {Obs("ok", {<<k[1], k[2]>> : k \in {x \in Keys : Exists(st, x) /\ st.obj[x].kind = "V"}})}
    [] op.k = "showsc" -> {Obs("ok", IF st.s2 THEN {"S1", "S2"} ELSE {"S1"})}
    [] op.k = "isd" -> {Obs("ok", {"D1"})}
    [] op.k = "pk" -> {Obs("ok", {})}

Drop(st, k) == [st EXCEPT !.obj[k] = NoObj]
Steps(st, op, D) ==
  IF op.k \in {"ist", "isc", "desc", "star", "show", "isv", "showsc", "isd", "pk"} THEN {R(st, o) : o \in Views(st, op, D)}
  ELSE CASE op.k = "createt" ->      \* CREATE [OR REPLACE] TABLE k (shape) [COMMENT = cmt]
         LET k == op.key  cols == Shape(op.sh)
             s2 == [st EXCEPT !.obj[k] = [e |-> TRUE, kind |-> "T", cols |-> cols, cmt |-> op.cmt],
                              !.extc = PutCmt(@, k, op.cmt), !.extl = PutLens(@, k, cols)] IN {R(s2, OK)}
    [] op.k = "ctas" ->              \* CREATE TABLE k AS SELECT * FROM src : columns and their types, no comment
         LET k == op.key  cols == [j \in 1..Len(st.obj[op.src].cols) |-> <<st.obj[op.src].cols[j][1], st.obj[op.src].cols[j][2], FALSE>>]
             s2 == [st EXCEPT !.obj[k] = [e |-> TRUE, kind |-> "T", cols |-> cols, cmt |-> ""]] IN {R(s2, OK)}
    [] op.k = "clone" ->             \* CREATE TABLE k CLONE src : everything but the comment's fate is the source's
         LET k == op.key  src == st.obj[op.src]
             s2 == [st EXCEPT !.obj[k] = [e |-> TRUE, kind |-> "T", cols |-> src.cols, cmt |-> src.cmt]] IN
         {R(s2, OK)}
         \cup (IF "C09.clone_loses_not_null" \in D
               THEN {R([st EXCEPT !.obj[k] = [e |-> TRUE, kind |-> "T", cmt |-> src.cmt,
                                              cols |-> [j \in 1..Len(src.cols) |-> <<src.cols[j][1], src.cols[j][2], FALSE>>]]], OK)} ELSE {})
    [] op.k = "addcol" ->            \* ALTER TABLE k ADD COLUMN C <type>
         LET k == op.key  cols == Append(st.obj[k].cols, <<"C", op.ty, FALSE>>)
             s2 == [st EXCEPT !.obj[k].cols = cols, !.extl = PutLens(@, k, << <<"C", op.ty, FALSE>> >>)] IN {R(s2, OK)}
    [] op.k = "dropcol" ->           \* ALTER TABLE k DROP COLUMN <last column>
         LET k == op.key IN {R([st EXCEPT !.obj[k].cols = SubSeq(@, 1, Len(@) - 1)], OK)}
    [] op.k = "renamecol" ->         \* ALTER TABLE k RENAME COLUMN A TO C  (C free)
         LET k == op.key IN {R([st EXCEPT !.obj[k].cols = [j \in 1..Len(@) |-> IF @[j][1] = "A" THEN <<"C", @[j][2], @[j][3]>> ELSE @[j]]], OK)}
    [] op.k = "renamet" ->           \* ALTER TABLE k RENAME TO <other name, same schema>
         LET k == op.key  k2 == <<k[1], op.to>> IN {R([st EXCEPT !.obj[k2] = st.obj[k], !.obj[k] = NoObj], OK)}
    [] op.k = "comment" ->           \* COMMENT ON TABLE k IS c  /  ALTER TABLE k SET COMMENT = c
         LET k == op.key IN {R([st EXCEPT !.obj[k].cmt = op.cmt, !.extc = PutCmt(@, k, op.cmt)], OK)}
    [] op.k = "dropt" -> {R(Drop(st, op.key), OK)}
    [] op.k = "createv" ->           \* CREATE VIEW schema.V AS SELECT * FROM src
         LET k == op.key  src == st.obj[op.src]
             s2 == [st EXCEPT !.obj[k] = [e |-> TRUE, kind |-> "V", cmt |-> "", cols |-> [j \in 1..Len(src.cols) |-> <<src.cols[j][1], src.cols[j][2], FALSE>>]]]
         IN {R(s2, OK)}
    [] op.k = "dropv" -> {R(Drop(st, op.key), OK)}
    [] op.k = "createsc" -> {R([st EXCEPT !.s2 = TRUE], OK)}
    [] op.k = "begin" -> {R([st EXCEPT !.tx = TRUE], OK)}      \* DDL and reads between BEGIN and COMMIT, all on one connection:
    [] op.k = "commit" -> {R([st EXCEPT !.tx = FALSE], OK)}    \* the views describe what that connection has made so far
    [] op.k = "nopstmt" -> {R(st, OK)}                          \* SET / UNSET of a session variable: answered without the engine, changes nothing
    [] op.k = "touchdb" ->           \* CREATE DATABASE IF NOT EXISTS <this database> / a further connect to it: declares, drops, replaces nothing
         {R(st, OK)}
    [] op.k = "dropsc" ->            \* DROP SCHEMA S2 (cascades)
         {R([st EXCEPT !.s2 = FALSE, !.obj = [k \in Keys |-> IF k[1] = "S2" THEN NoObj ELSE @[k]]], OK)}

\* ---- vocabulary ----
CONSTANTS SchemasUsed, ReadsUsed
TKeys(st) == {k \in Keys : k[1] \in SchemasUsed /\ k[2] \in TNames /\ (k[1] = "S1" \/ st.s2)}
Tables(st) == {k \in TKeys(st) : Exists(st, k) /\ st.obj[k].kind = "T"}
\* tables that may be changed: those of a schema without a view (what a view shows after its table changed is not part of the property)
Free(st) == {k \in Tables(st) : ~Exists(st, <<k[1], VName>>)}
FreeKeys(st) == {k \in TKeys(st) : ~Exists(st, <<k[1], VName>>)}
Ops(st) ==
  {o \in [k : {"createt"}, key : FreeKeys(st), sh : {"sh1", "sh2", "sh3"}, cmt : {"", "c1", "c2"}, mode : {"plain", "replace"}] :
       o.mode = "replace" \/ ~Exists(st, o.key)}
  \cup {o \in [k : {"ctas", "clone"}, key : FreeKeys(st), src : Tables(st)] : ~Exists(st, o.key) /\ (o.k = "clone" \/ \A j \in 1..Len(st.obj[o.src].cols) : ~st.obj[o.src].cols[j][3])}
  \cup {o \in [k : {"addcol"}, key : Free(st), ty : {"vc7", "int", "num10"}] : ~HasCol(st.obj[o.key].cols, "C")}
  \cup {o \in [k : {"dropcol"}, key : Free(st)] : Len(st.obj[o.key].cols) >= 2}
  \cup {o \in [k : {"renamecol"}, key : Free(st)] : HasCol(st.obj[o.key].cols, "A") /\ ~HasCol(st.obj[o.key].cols, "C")}
  \cup {o \in [k : {"renamet"}, key : Free(st), to : TNames] : ~Exists(st, <<o.key[1], o.to>>)}
  \cup [k : {"comment"}, key : Tables(st), cmt : {"c1", "c2"}, form : {"comment_on", "alter_set"}]
  \cup [k : {"dropt"}, key : Free(st)]
  \cup {o \in [k : {"createv"}, key : {<<s, VName>> : s \in {x \in SchemasUsed : x = "S1" \/ st.s2}}, src : Tables(st)] : ~Exists(st, o.key) /\ o.src[1] = o.key[1]}
  \cup [k : {"dropv"}, key : {k \in Keys : k[2] = VName /\ Exists(st, k)}]
  \cup (IF "S2" \in SchemasUsed THEN (IF st.s2 THEN [k : {"dropsc"}] ELSE [k : {"createsc"}]) ELSE {})
  \cup [k : {"touchdb"}, form : {"create_if_not_exists", "connect"}]
  \cup [k : {"nopstmt"}, w : {"setvar", "unsetvar"}]
  \cup (IF st.tx THEN [k : {"commit"}] ELSE [k : {"begin"}])
  \* via: the view is read by a session of this database ("own") or, database-qualified, by a session whose current database
  \* is another one ("other") - the same view of the same catalog
  \* (another session does not see what an open transaction has made: "other" is offered outside transactions)
  \cup (IF "ist" \in ReadsUsed THEN [k : {"ist", "isv"}, via : IF st.tx THEN {"own"} ELSE {"own", "other"}] \cup [k : {"showsc", "isd", "pk"}] ELSE {})
  \cup (IF "obj" \in ReadsUsed THEN [k : {"isc"}, key : {k \in Keys : k[1] \in SchemasUsed}, via : IF st.tx THEN {"own"} ELSE {"own", "other"}]
                                    \cup [k : {"desc", "star"}, key : {k \in Keys : k[1] \in SchemasUsed}] ELSE {})
  \cup (IF "show" \in ReadsUsed THEN [k : {"show"}, what : {"tables", "objects"}, scope : {"account", "database"} \cup SchemasUsed] ELSE {})

\* ---- C09 on the model ----
IsRead(op) == op.k \in {"ist", "isc", "desc", "star", "show", "isv", "showsc", "isd", "pk"}
StepOk(st, op, r) ==
  /\ (IsRead(op) => r.post = st /\ r.obs \in Views(st, op, {}))           \* a view is a function of the live catalog only
  /\ (op.k = "show" => r.obs.res = "clean")                                \* NoInternals
  /\ (op.k = "clone" => r.post.obj[op.key].cols = st.obj[op.src].cols)     \* CLONE copies the columns as declared
  /\ (op.k = "ist" => \A x \in r.obs.v : Exists(st, <<x[1], x[2]>>) /\ x[4] = st.obj[<<x[1], x[2]>>].cmt)     \* NoGhosts, comments as declared
  \* Consistent: DESCRIBE, information_schema.columns and SELECT * agree on the columns of an object
  /\ (op.k = "desc" /\ r.obs.res = "ok" =>
        LET a == Views(st, [k |-> "isc", key |-> op.key], {})  b == Views(st, [k |-> "star", key |-> op.key], {}) IN
        \A x \in a : \A y \in b : Len(x.v) = Len(r.obs.v) /\ Len(y.v) = Len(r.obs.v)
                                  /\ \A j \in 1..Len(r.obs.v) : x.v[j][1] = r.obs.v[j][1] /\ y.v[j][1] = r.obs.v[j][1])
=============================================================================
