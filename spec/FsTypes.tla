------------------------------- MODULE FsTypes -------------------------------
(* C01 - stored values read back unchanged, in the connector's Python types. *)
(*                                                                           *)
(* Store(path, type, rows) ; Read  is the identity on the written values:    *)
(* every row exactly once, NULLs in place, each non-NULL cell an instance of *)
(* PyClass(type), and nothing else touched.  Values are abstract classes     *)
(* here (edges of each type); the driver concretises them from edge lists.   *)
EXTENDS FsBase

AllDevs == {"C01.number_scale0_as_decimal", "C01.binary_text_is_not_hex", "C01.bytes_parameter_rejected", "C01.qmark_38_digit_int_rejected",
            "C01.dollar_word_in_text_literal"}

Types == {"boolean", "number38", "number102", "int", "float", "varchar", "date", "time", "ts_ntz", "ts_tz", "binary", "variant", "object", "array"}
PyClass(ty) == CASE ty = "boolean" -> "bool" [] ty \in {"number38", "int"} -> "int" [] ty = "number102" -> "Decimal" [] ty = "float" -> "float"
                 [] ty = "varchar" -> "str" [] ty = "date" -> "date" [] ty = "time" -> "time" [] ty = "ts_ntz" -> "datetime_naive"
                 [] ty = "ts_tz" -> "datetime_utc" [] ty = "binary" -> "bytes" [] ty \in {"variant", "object", "array"} -> "json_text"
\* value classes: the edges of each type's domain
ClassesOf(ty) ==
  CASE ty = "boolean" -> {"true", "false"}
    [] ty = "number38" -> {"zero", "one", "max38", "min38", "int64max"}
    [] ty = "number102" -> {"zero", "max_full_scale", "min_full_scale", "smallest_step"}
    [] ty = "int" -> {"zero", "int64max", "int64min", "neg"}
    [] ty = "float" -> {"zero", "maxfloat", "denormal", "negative", "fraction"}
    [] ty = "varchar" -> {"empty", "plain", "unicode", "quote", "newline", "long", "dollar", "percent", "bslash", "nopword"}
    [] ty = "date" -> {"epoch", "pre1970", "min", "max", "leapday"}
    [] ty = "time" -> {"midnight", "usec", "last"}
    [] ty \in {"ts_ntz", "ts_tz"} -> {"epoch", "pre1970_usec", "usec", "far"}
    [] ty = "binary" -> {"empty", "ascii", "nulbyte", "highbytes"}
    [] ty \in {"variant", "object", "array"} -> {"flat", "nested", "unicode"}
\* write_pandas_chunked: write_pandas with an explicit chunk_size that does not divide (or exceeds) the number of rows
\* literal_script: the INSERT with literals given to connection.execute_string
Paths == {"literal", "literal_script", "pyformat", "qmark", "insert_select", "ctas", "clone", "write_pandas", "write_pandas_chunked"}

InitSt == [x |-> 0]
\*  res    : "ok" | "err"
\*  same   : every written row read back exactly once with an equal value (NULLs as None), via fetchall, fetch_pandas_all and raw
\*  pyc    : the Python class of the non-NULL cells ("mixed" when they differ)
\*  others : "ok" when the bystander table is untouched
Obs(res, same, pyc, others) == [res |-> res, same |-> same, pyc |-> pyc, others |-> others]

Expected(op, D) ==
  {Obs("ok", TRUE, PyClass(op.ty), "ok")}
  \cup (IF "C01.number_scale0_as_decimal" \in D /\ op.ty = "number38" THEN {Obs("ok", TRUE, "Decimal", "ok")} ELSE {})
  \* as built a text literal cast to BINARY is taken as UTF-8 text, not as hex digits
  \cup (IF "C01.binary_text_is_not_hex" \in D /\ op.ty = "binary" /\ op.path \in {"literal", "literal_script"} THEN {Obs("ok", FALSE, "bytes", "ok"), Obs("err", FALSE, "none", "ok")} ELSE {})
  \* as built a bytes parameter is rendered as X'..', which the engine cannot cast
  \cup (IF "C01.bytes_parameter_rejected" \in D /\ op.ty = "binary" /\ op.path \in {"pyformat", "qmark"} THEN {Obs("err", FALSE, "none", "ok")} ELSE {})
  \* as built the engine's client converts a Python int beyond 64 bits through a double: 38-digit values cannot be bound natively
  \cup (IF "C01.qmark_38_digit_int_rejected" \in D /\ op.ty = "number38" /\ op.path = "qmark" /\ op.vc \in {"max38", "min38"} /\ op.nulls # "all"
        THEN {Obs("err", FALSE, "none", "ok")} ELSE {})
  \* as built text of the form $word inside a string literal of the statement is taken for a session variable reference
  \* (the same defect as C15.ref_in_string_literal): rejected when the variable does not exist, rewritten when it does
  \cup (IF "C01.dollar_word_in_text_literal" \in D /\ op.ty = "varchar" /\ op.vc = "dollar" /\ op.path \in {"literal", "literal_script"} /\ op.nulls # "all"
        THEN {Obs("err", FALSE, "none", "ok"), Obs("ok", FALSE, "str", "ok")} ELSE {})
Steps(st, op, D) == {R(st, o) : o \in Expected(op, D)}

CONSTANTS TypesUsed
Cases == UNION {[ty : {ty}, path : Paths, vc : ClassesOf(ty), nulls : {"none", "first", "last", "all"}, rows : {1, 3}] : ty \in TypesUsed \cap Types}
Ops(st) == Cases
StepOk(st, op, r) == r.post = st /\ r.obs.res = "ok" /\ r.obs.same /\ r.obs.pyc = PyClass(op.ty) /\ r.obs.others = "ok"
=============================================================================
