-------------------------------- MODULE FsJson --------------------------------
(* C11 - VARIANT / OBJECT / ARRAY values behave as JSON documents.           *)
(*                                                                           *)
(* A document is a tagged record [k, v] (the tag sorts first, so TLC never   *)
(* compares payloads of different kinds):                                    *)
(*   [k |-> "obj", v |-> << <<key, doc>>, ... >>]   [k |-> "arr", v |-> <<doc, ...>>]        *)
(*   [k |-> "str", v |-> text]  [k |-> "num", v |-> n]  [k |-> "bool", v |-> b]  [k |-> "null", v |-> 0] *)
(* Navigating it is plain recursion; JSON null, SQL NULL and None are one.   *)
EXTENDS FsBase

AllDevs == {"C11.array_size_empty_is_null", "C11.object_construct_all_null_rejected", "C11.bracket_only_access_broken", "C11.uncast_extraction_in_operators",
            "C11.flatten_object_unsupported", "C11.array_construct_mixed_rejected"}

S(x) == [k |-> "str", v |-> x]
N(x) == [k |-> "num", v |-> x]
B(x) == [k |-> "bool", v |-> x]
Nul == [k |-> "null", v |-> 0]
O(pairs) == [k |-> "obj", v |-> pairs]
A(elems) == [k |-> "arr", v |-> elems]
NoDoc == [k |-> "none", v |-> 0]

\* the documents (depth <= 3, width <= 3; strings needing escapes, blanks, empty containers, nulls, numbers, booleans)
D1 == O(<< <<"a", O(<< <<"b", A(<<N(10), S("x"), O(<< <<"c", B(TRUE)>> >>)>>)>>, <<"n", Nul>>, <<"s", S("q\"t")>> >>)>>,
           <<"e", A(<<>>)>>, <<"o", O(<<>>)>>, <<"num", N(25)>>, <<"t", S(" pad ")>> >>)
D2 == A(<<S("x"), N(1), B(FALSE), Nul, A(<<N(2), N(3)>>)>>)
D3 == O(<< <<"a", S("Mixed Case")>>, <<"b", N(-7)>> >>)
D4 == A(<<>>)
D5 == O(<<>>)
D6 == O(<< <<"a", A(<<O(<< <<"b", S("deep")>> >>), O(<< <<"b", Nul>> >>)>>)>> >>)
Docs == <<D1, D2, D3, D4, D5, D6>>

\* path steps are strings: "k:<key>" or "i:<index>"
StepKind(s) == IF s \in {"i:0", "i:1", "i:2", "i:4", "i:9"} THEN "i" ELSE "k"
StepIdx(s) == CASE s = "i:0" -> 0 [] s = "i:1" -> 1 [] s = "i:2" -> 2 [] s = "i:4" -> 4 [] s = "i:9" -> 9
StepKey(s) == CASE s = "k:a" -> "a" [] s = "k:b" -> "b" [] s = "k:c" -> "c" [] s = "k:n" -> "n" [] s = "k:s" -> "s" [] s = "k:e" -> "e"
                [] s = "k:o" -> "o" [] s = "k:num" -> "num" [] s = "k:t" -> "t" [] s = "k:zz" -> "zz"
Missing == [k |-> "missing", v |-> 0]
Get1(d, s) ==
  IF StepKind(s) = "k" THEN
     IF d.k # "obj" THEN Missing
     ELSE LET hits == {j \in 1..Len(d.v) : d.v[j][1] = StepKey(s)} IN IF hits = {} THEN Missing ELSE d.v[CHOOSE j \in hits : TRUE][2]
  ELSE IF d.k # "arr" \/ StepIdx(s) + 1 > Len(d.v) THEN Missing ELSE d.v[StepIdx(s) + 1]
RECURSIVE GetPath(_, _)
GetPath(d, p) == IF p = <<>> THEN d ELSE LET x == Get1(d, Head(p)) IN IF x.k = "missing" THEN x ELSE GetPath(x, Tail(p))
IsNullish(d) == d.k \in {"missing", "null"}

\* ---- results ----
\*  res : "doc" (a JSON value, compared after parsing) | "txt" | "num" | "bool" | "null" | "err" | "docs" (a sequence of JSON values)
Res(res, txt, doc, docs) == [res |-> res, txt |-> txt, doc |-> doc, docs |-> docs]
RDoc(d) == Res("doc", "", d, <<>>)
RTxt(t) == Res("txt", t, NoDoc, <<>>)
RNum(n) == Res("num", ToString(n), NoDoc, <<>>)
RBool(b) == Res("bool", IF b THEN "True" ELSE "False", NoDoc, <<>>)
RNull == Res("null", "", NoDoc, <<>>)
RErr == Res("err", "", NoDoc, <<>>)
RDocs(q) == Res("docs", "", NoDoc, q)

Upper(t) == CASE t = "x" -> "X" [] t = "q\"t" -> "Q\"T" [] t = "Mixed Case" -> "MIXED CASE" [] t = " pad " -> " PAD " [] t = "deep" -> "DEEP"
Lower(t) == CASE t = "x" -> "x" [] t = "q\"t" -> "q\"t" [] t = "Mixed Case" -> "mixed case" [] t = " pad " -> " pad " [] t = "deep" -> "deep"
Trim(t) == IF t = " pad " THEN "pad" ELSE t
JsonEsc(t) == IF t = "q\"t" THEN "q\\\"t" ELSE t          \* the text as it stands inside a JSON string
InitSt == [x |-> 0]

Expected(op, D) ==
  CASE op.fn = "get" ->
         LET d == GetPath(Docs[op.doc], op.path) IN
         LET ideal ==
               IF IsNullish(d) THEN {RNull}                       \* missing paths and non-matching kinds give NULL
               ELSE (CASE op.cast = "none"    -> {RDoc(d)}
                       [] op.cast = "varchar" -> IF d.k = "str" THEN {RTxt((CASE op.wrap = "upper" -> Upper(d.v) [] op.wrap = "lower" -> Lower(d.v)
                                                                               [] op.wrap = "trim" -> Trim(d.v) [] OTHER -> d.v))}   \* quotes dropped
                                                 ELSE IF d.k = "num" THEN {RTxt(ToString(d.v))}
                                                 ELSE IF d.k = "bool" THEN {RTxt(IF d.v THEN "true" ELSE "false")}
                                                 ELSE {RDoc(d)}
                       [] op.cast = "number"  -> IF d.k = "num" THEN {RNum(d.v)} ELSE {RErr}
                       [] op.cast = "boolean" -> IF d.k = "bool" THEN {RBool(d.v)} ELSE {RErr})
             \* as built an access path written with brackets only: one step works but keeps the JSON quotes when converted
             \* to text; ['k'] followed by anything is a binder error; [i][j] is NULL
             bracketOnly == op.syn = "brackets" \/ (op.syn # "get_path" /\ \A j \in 1..Len(op.path) : StepKind(op.path[j]) = "i")
             dev == IF "C11.bracket_only_access_broken" \notin D \/ ~bracketOnly THEN {}
                    ELSE IF Len(op.path) >= 2 THEN (IF StepKind(op.path[1]) = "k" THEN {RErr} ELSE {RNull})
                    ELSE IF Len(op.path) = 1 /\ d.k = "str" /\ op.cast = "varchar"
                         THEN {RTxt("\"" \o (CASE op.wrap = "upper" -> Upper(d.v) [] op.wrap = "lower" -> Lower(d.v) [] OTHER -> d.v) \o "\"")}
                         ELSE {}
         IN ideal \cup dev
    [] op.fn = "oper" ->     \* the extraction inside an operator: E::varchar = 'x', E::varchar || 'y', E::number + 1, NOT E::boolean, AND, IN
         LET d == GetPath(Docs[op.doc], op.path) IN
         LET ideal == IF IsNullish(d) THEN RNull
                      ELSE (CASE op.o = "eq"     -> RBool(d.k = "str" /\ d.v = "x")
                              [] op.o = "concat" -> RTxt((IF d.k = "str" THEN d.v ELSE ToString(d.v)) \o "y")
                              [] op.o = "plus"   -> RNum(d.v + 1)
                              [] op.o = "not"    -> RBool(~d.v)
                              [] op.o = "and"    -> RBool(d.v /\ TRUE)
                              [] op.o = "in"     -> RBool(d.v \in {25, 3})
                              [] op.o = "between" -> RBool(d.v >= 4 /\ d.v <= 26)
                              [] op.o = "bound"   -> RBool(6 >= d.v /\ 6 <= 30)
                              [] op.o = "eqnum"   -> RBool(d.v = 25))
         IN {ideal} \cup
            (IF "C11.uncast_extraction_in_operators" \in D /\ ~op.casted
             THEN (CASE op.o = "eq" -> {RErr}                                     \* the literal is parsed as JSON
                     [] op.o = "concat" -> IF d.k = "str" THEN {RTxt("\"" \o JsonEsc(d.v) \o "\"y")} ELSE {}
                     [] op.o = "plus" -> {RErr}                                   \* no + for the JSON type
                     [] OTHER -> {})
             ELSE {})
    [] op.fn = "arraysize" ->
         LET d == GetPath(Docs[op.doc], op.path) IN
         IF d.k # "arr" THEN {RNull}
         ELSE {RNum(Len(d.v))} \cup (IF "C11.array_size_empty_is_null" \in D /\ d.v = <<>> THEN {RNull} ELSE {})
    [] op.fn = "flatten" ->  \* LATERAL FLATTEN(input => E): every element once, in order
         LET d == GetPath(Docs[op.doc], op.path) IN
         IF d.k = "arr" THEN {RDocs([j \in 1..Len(d.v) |-> IF d.v[j].k = "null" THEN Nul ELSE d.v[j]])}
         ELSE IF d.k = "obj" THEN {RDocs([j \in 1..Len(d.v) |-> d.v[j][2]])}
                                  \cup (IF "C11.flatten_object_unsupported" \in D THEN {RErr} ELSE {})
         ELSE {RDocs(<<>>)} \cup (IF "C11.flatten_object_unsupported" \in D THEN {RErr} ELSE {})
    [] op.fn = "objcons" ->  \* OBJECT_CONSTRUCT[_KEEP_NULL](k1, v1, ...): NULL-valued pairs are dropped unless KEEP_NULL
         LET kept == SelectSeq(op.pairs, LAMBDA p : op.keep \/ p[2] # "null")
             \* "pnn": a parenthesised non-NULL expression mentioning NULL, (1 IS NOT NULL); "iffc": IFF(1 > 0, 1, NULL)::int
             val(x) == (CASE x = "null" -> Nul [] x \in {"one", "iffc"} -> N(1) [] x = "sx" -> S("x") [] x \in {"true", "pnn"} -> B(TRUE)) IN
         {RDoc(O([j \in 1..Len(kept) |-> <<kept[j][1], val(kept[j][2])>>]))}
         \cup (IF "C11.object_construct_all_null_rejected" \in D /\ kept = <<>> THEN {RErr} ELSE {})
    [] op.fn = "arrcons" ->  \* ARRAY_CONSTRUCT(...) / [ ... ]
         LET val(x) == (CASE x = "null" -> Nul [] x = "one" -> N(1) [] x = "two" -> N(2) [] x = "sx" -> S("x")) IN
         {RDoc(A([j \in 1..Len(op.elems) |-> val(op.elems[j])]))}
         \cup (IF "C11.array_construct_mixed_rejected" \in D /\ \E j \in 1..Len(op.elems) : op.elems[j] = "sx" THEN {RErr} ELSE {})
    [] op.fn = "split" -> {RDoc(A([j \in 1..Len(op.parts) |-> S(op.parts[j])]))}      \* whatever the (non-empty) separator is
    [] op.fn = "consof" ->   \* a constructor around an extraction, then converted: the extracted VALUE goes in, whatever surrounds it
         LET d == GetPath(Docs[op.doc], op.path) IN
         {RDoc(IF op.cons = "object" THEN O(<< <<"n", d>> >>) ELSE A(<<d>>))}
    [] op.fn = "reparse" ->  \* a document that holds another document as TEXT: PARSE_JSON(v:payload::varchar):<key>::<type>
         {IF op.key = "id" THEN RNum(7) ELSE RTxt("it is")}
    [] op.fn = "flat2" ->    \* two LATERAL FLATTENs in one select, both VALUEs converted to text: every pair, quotes dropped on both sides
         {RDocs(<<S("x|s"), S("y|s")>>)}
    [] op.fn = "flattrim" -> \* TRIM / LTRIM / RTRIM directly over a FLATTEN value holding a string
         {RDocs(<<S(IF op.which = "trim" THEN "red" ELSE IF op.which = "ltrim" THEN "red " ELSE "  red")>>)}
    [] op.fn = "digitkey" -> \* a quoted all-digit key in brackets is a KEY: the member of an object, nothing of an array
         {IF op.on = "object" THEN RDoc(S("yr")) ELSE RNull}
    [] op.fn = "tryparse" -> IF op.good THEN {RDoc(D3)} ELSE {RNull}

Steps(st, op, D) == {R(st, o) : o \in Expected(op, D)}

\* ---- the case space ----
CONSTANTS PathsUsed
Paths1 == {<<>>, <<"k:a">>, <<"k:num">>, <<"k:e">>, <<"k:o">>, <<"k:t">>, <<"k:zz">>, <<"k:a", "k:b">>, <<"k:a", "k:n">>, <<"k:a", "k:s">>, <<"k:a", "k:zz">>,
           <<"k:num", "k:a">>, <<"k:a", "k:b", "i:0">>, <<"k:a", "k:b", "i:1">>, <<"k:a", "k:b", "i:2">>, <<"k:a", "k:b", "i:9">>,
           <<"k:a", "k:b", "i:2", "k:c">>, <<"k:a", "i:0">>}
Paths2 == {<<>>, <<"i:0">>, <<"i:1">>, <<"i:2">>, <<"i:4">>, <<"i:9">>, <<"i:4", "i:1">>, <<"k:a">>}
Paths3 == {<<"k:a">>, <<"k:b">>}
Paths6 == {<<"k:a", "i:0", "k:b">>, <<"k:a", "i:1", "k:b">>, <<"k:a", "i:1">>}
PathsOf(j) == CASE j = 1 -> Paths1 [] j = 2 -> Paths2 [] j = 3 -> Paths3 [] j = 6 -> Paths6 [] OTHER -> {<<>>, <<"k:a">>, <<"i:0">>}
Kind(j, p) == GetPath(Docs[j], p).k
Cases ==
  UNION {UNION {
     {o \in [fn : {"get"}, doc : {j}, path : {p}, syn : {"colon", "brackets", "mixed", "get_path"}, cast : {"none", "varchar", "number", "boolean"},
             wrap : {"none", "upper", "lower", "trim"}, src : {"col", "lit"}] :
          /\ (o.wrap # "none" => o.cast = "varchar" /\ Kind(j, p) = "str")
          /\ (o.cast = "number" => Kind(j, p) \in {"num", "null", "missing"})
          /\ (o.cast = "boolean" => Kind(j, p) \in {"bool", "null", "missing"})
          /\ (o.syn # "colon" => p # <<>>)}
     \cup {o \in [fn : {"oper"}, doc : {j}, path : {p}, o : {"eq", "concat", "plus", "not", "and", "in", "between", "bound", "eqnum"}, casted : BOOLEAN] :
          /\ p # <<>> /\ StepKind(p[1]) = "k"            \* (index-first paths are rendered with brackets only: judged under "get")
          /\ (o.o \in {"eq", "concat"} => Kind(j, p) \in {"str", "num", "null", "missing"} /\ (o.o = "eq" => Kind(j, p) # "num"))
          /\ (o.o \in {"plus", "in", "between", "bound", "eqnum"} => Kind(j, p) \in {"num", "null", "missing"})
          /\ (o.o \in {"not", "and"} => Kind(j, p) \in {"bool", "null", "missing"})
          /\ (o.o \in {"not", "and", "in"} => o.casted)}
     \cup [fn : {"arraysize", "flatten"}, doc : {j}, path : {p}]
     : p \in PathsOf(j)} : j \in 1..Len(Docs)}
  \cup {o \in [fn : {"objcons"}, pairs : SeqsUpTo({<<"a", "one">>, <<"b", "null">>, <<"c", "sx">>, <<"d", "true">>, <<"e", "pnn">>, <<"f", "iffc">>, <<"g", "null">>}, 3), keep : BOOLEAN] :
          \A x, y \in 1..Len(o.pairs) : x # y => o.pairs[x][1] # o.pairs[y][1]}
  \cup [fn : {"arrcons"}, elems : SeqsUpTo({"one", "two", "sx"}, 2), form : {"function", "literal"}]
  \cup [fn : {"split"}, parts : {<<"a">>, <<"a", "b">>, <<"a", "", "b">>}, sep : {"comma", "blank", "commablank", "twoblanks"}]
  \cup UNION {{o \in [fn : {"consof"}, doc : {j}, path : PathsOf(j), cons : {"object", "array"}, cast : {"none", "varchar", "variant"}, src : {"col", "lit"}] :
                   /\ o.path # <<>> /\ StepKind(o.path[1]) = "k" /\ ~IsNullish(GetPath(Docs[j], o.path))
                   \* (an ARRAY_CONSTRUCT result that is not converted reaches Python as a list of JSON texts: how ARRAY values are
                   \*  represented is C01's subject, the document is judged here once it is converted)
                   /\ ~(o.cons = "array" /\ o.cast = "none")} : j \in {1, 3, 6}}
  \cup [fn : {"reparse"}, key : {"id", "t"}, src : {"col", "lit"}, via : {"parse_json", "try_parse_json"}]
  \cup [fn : {"tryparse"}, good : BOOLEAN]
  \cup [fn : {"flat2"}, cast : {"varchar", "string"}] \cup [fn : {"flattrim"}, which : {"trim", "ltrim", "rtrim"}]
  \cup [fn : {"digitkey"}, on : {"object", "array"}, key : {"2024", "1"}, src : {"col", "lit"}]
Ops(st) == Cases

StepOk(st, op, r) ==
  /\ r.post = st
  /\ (op.fn = "get" /\ op.cast = "none" /\ r.obs.res = "doc" => r.obs.doc = GetPath(Docs[op.doc], op.path))
  \* extracted strings lose their quotes exactly when converted to text
  /\ (op.fn = "get" /\ op.cast = "varchar" /\ GetPath(Docs[op.doc], op.path).k = "str" => r.obs.res = "txt")
  /\ (op.fn = "get" /\ IsNullish(GetPath(Docs[op.doc], op.path)) => r.obs.res = "null")
  /\ (op.fn = "arraysize" /\ GetPath(Docs[op.doc], op.path).k = "arr" => r.obs.res = "num")
  /\ (op.fn \in {"oper", "flatten", "arrcons", "objcons", "consof", "reparse", "split", "flat2", "flattrim", "digitkey"} => r.obs.res # "err")
  /\ (op.fn = "objcons" /\ ~op.keep => \A j \in 1..Len(r.obs.doc.v) : r.obs.doc.v[j][2].k # "null")
=============================================================================
