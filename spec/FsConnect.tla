------------------------------ MODULE FsConnect ------------------------------
(* C14 - connect() does what its options say in every configuration.         *)
(*                                                                           *)
(* One FakeSnow instance with its options, a catalog (attached databases and *)
(* their user schemas), database files on disk (db_path storage) and the     *)
(* sessions made so far.  connect(cfg) never fails, creates exactly what the *)
(* flags allow, reports the requested names upper-cased, and leaves the      *)
(* session with a current database / schema exactly when those exist.        *)
EXTENDS FsBase

AllDevs == {"C14.create_schema_in_missing_database"}

CONSTANTS Db, Sc, DiskDb      \* DiskDb: the database an earlier instance left on disk (storage = path_existing)
NONE == "none"
INFO == "INFORMATION_SCHEMA"

InitSt == [inst |-> FALSE, cd |-> FALSE, cs |-> FALSE, storage |-> "memory",
           dbs |-> {}, schemas |-> {}, disk |-> {}, sess |-> <<>>]

\* ---- observations ----
\*  res    : "ok" | "exc"
\*  me     : <<reported database, reported schema>> of the new session (conn.database / conn.schema)
\*  probe  : what an unqualified statement does on the new session: "nodb" (90105) | "nosc" (90106) | "ctx" (resolved)
\*  dbs, schemas : the live catalog read through a raw engine cursor
\*  files  : names of the databases that have a file under db_path
\*  others : reported context and probe of every earlier session, in order (connecting never disturbs them)
Obs(res, me, probe, st) ==
  [res |-> res, me |-> me, probe |-> probe, dbs |-> st.dbs, schemas |-> st.schemas, files |-> st.disk,
   others |-> [j \in 1..Len(st.sess) |-> <<st.sess[j].rdb, st.sess[j].rsc, st.sess[j].probe>>],
   \* the table an earlier instance left in DiskDb (one row, a comment, a VARCHAR(9) column): once the database is attached it is
   \* found exactly as it was left - connecting never disturbs existing data
   kept |-> IF st.storage = "path_existing" /\ DiskDb \in st.dbs THEN "ok" ELSE "na"]

ProbeOf(dset, sset) == IF ~dset THEN "nodb" ELSE IF ~sset THEN "nosc" ELSE "ctx"

\* a session's probe can change only because the object it points at appeared (created later by someone else);
\* the model keeps probes as taken at connect time and the driver re-probes only the NEW session, so others = history
Connect(st, op, D) ==
  LET db == op.db  sc == op.sc
      hasdb == db # NONE
      onDisk == db \in st.disk
      createdDb == st.cd /\ hasdb /\ db \notin st.dbs
      dbs1 == IF createdDb THEN st.dbs \cup {db} ELSE st.dbs
      \* attaching a database that has a file brings its schemas back
      sch0 == IF createdDb /\ onDisk THEN st.schemas \cup {<<db, s>> : s \in Sc \cap {"S_1"}} ELSE st.schemas
      db1 == db \in dbs1
      userSc == sc \notin {NONE, INFO}
      createdSc == st.cs /\ hasdb /\ userSc /\ db1 /\ <<db, sc>> \notin sch0
      sch1 == IF createdSc THEN sch0 \cup {<<db, sc>>} ELSE sch0
      sc1 == IF sc = INFO THEN db1 ELSE IF userSc THEN <<db, sc>> \in sch1 ELSE FALSE
      dset == hasdb /\ db1
      sset == dset /\ sc # NONE /\ sc1
      disk1 == IF createdDb /\ st.storage # "memory" THEN st.disk \cup {db} ELSE st.disk
      me == [rdb |-> db, rsc |-> sc, probe |-> ProbeOf(dset, sset)]
      s2 == [st EXCEPT !.dbs = dbs1, !.schemas = sch1, !.disk = disk1]
      s3 == [s2 EXCEPT !.sess = Append(@, me)]
      ideal == R(s3, Obs("ok", <<db, sc>>, me.probe, s2))
      \* as built (conn.py:69-78): CREATE SCHEMA db.sc is attempted although the database does not exist
      raises == st.cs /\ hasdb /\ sc # NONE /\ ~db1
  IN IF "C14.create_schema_in_missing_database" \in D /\ raises
     THEN {ideal, R(st, Obs("exc", <<NONE, NONE>>, "none", st))}
     ELSE {ideal}

Steps(st, op, D) ==
  CASE op.k = "inst" ->
         LET s2 == [st EXCEPT !.inst = TRUE, !.cd = op.cd, !.cs = op.cs, !.storage = op.storage,
                              !.disk = IF op.storage = "path_existing" THEN {DiskDb} ELSE {}]
         IN {R(s2, Obs("ok", <<NONE, NONE>>, "none", s2))}
    [] op.k = "mkdb" ->      \* CREATE DATABASE d through a session without context
         LET s2 == [st EXCEPT !.dbs = @ \cup {op.db},
                              !.schemas = IF op.db \in st.disk THEN @ \cup {<<op.db, s>> : s \in Sc \cap {"S_1"}} ELSE @,
                              !.disk = IF st.storage # "memory" THEN @ \cup {op.db} ELSE @]
         IN {R(s2, Obs("ok", <<NONE, NONE>>, "none", s2))}
    [] op.k = "mksc" ->      \* CREATE SCHEMA d.s (fully qualified)
         LET s2 == [st EXCEPT !.schemas = @ \cup {<<op.db, op.sc>>}] IN {R(s2, Obs("ok", <<NONE, NONE>>, "none", s2))}
    [] op.k = "rmsc" ->      \* the sessions whose current schema is d.s are closed (and forgotten), then DROP SCHEMA d.s:
                             \* "prior state: the schema exists or not" includes "existed, was connected to, exists no longer"
         LET s2 == [st EXCEPT !.schemas = @ \ {<<op.db, op.sc>>},
                              !.sess = SelectSeq(@, LAMBDA m : ~(m.rdb = op.db /\ m.rsc = op.sc))]
         IN {R(s2, Obs("ok", <<NONE, NONE>>, "none", s2))}
    [] op.k = "connect" -> Connect(st, op, D)

\* ---- vocabulary ----
CONSTANTS MaxSess
Cases == {"lower", "upper", "mixed"}
Ops(st) ==
  IF ~st.inst THEN [k : {"inst"}, cd : BOOLEAN, cs : BOOLEAN, storage : {"memory", "path_empty", "path_existing"}]
  ELSE (IF Len(st.sess) < MaxSess
        THEN [k : {"connect"}, db : Db, dbcase : Cases, sc : Sc \cup {NONE, INFO}, sccase : Cases]
             \cup [k : {"connect"}, db : {NONE}, dbcase : {"upper"}, sc : {NONE} \cup Sc, sccase : {"upper"}]
        ELSE {})
       \cup {o \in [k : {"mkdb"}, db : Db] : o.db \notin st.dbs}
       \cup {o \in [k : {"mksc"}, db : Db, sc : Sc] : o.db \in st.dbs /\ <<o.db, o.sc>> \notin st.schemas}
       \* (not the schema that holds the table the earlier instance left: "kept" is about connect, not about DROP)
       \cup {o \in [k : {"rmsc"}, db : Db, sc : Sc] : <<o.db, o.sc>> \in st.schemas
                                                      /\ ~(st.storage = "path_existing" /\ o.db = DiskDb /\ o.sc = "S_1")}

\* ---- C14 on the model ----
StepOk(st, op, r) ==
  op.k = "connect" =>
    /\ r.obs.res = "ok"                                                      \* connect succeeds in every configuration
    /\ r.post.dbs \ st.dbs \subseteq (IF st.cd /\ op.db # NONE THEN {op.db} ELSE {})            \* creates only what the options allow
    /\ {x \in r.post.schemas \ st.schemas : x[1] \in st.dbs} \subseteq (IF st.cs THEN {<<op.db, op.sc>>} ELSE {})
    /\ st.dbs \subseteq r.post.dbs /\ st.schemas \subseteq r.post.schemas                      \* and destroys nothing
    /\ (r.obs.probe # "nodb") = (op.db \in r.post.dbs)                        \* current database iff it exists
    /\ (r.obs.probe = "ctx") = (op.db \in r.post.dbs /\ (<<op.db, op.sc>> \in r.post.schemas \/ op.sc = INFO))
    /\ r.obs.me = <<op.db, op.sc>>                                            \* requested names, upper-cased
    /\ SubSeq(r.post.sess, 1, Len(st.sess)) = st.sess                         \* other sessions undisturbed
    /\ (st.storage = "memory" => r.post.disk = {})
=============================================================================
