------------------------------- MODULE FsPatch -------------------------------
(* C20 - patch() and the command line switch the fake on and off cleanly.    *)
(*                                                                           *)
(* Part A: the patch() context manager as a state machine over one process:  *)
(*   in    - inside a `with fakesnow.patch(...)` block                        *)
(*   kind  - which extra target the block was entered with                    *)
(*   conns - connections made inside the block (they must be closed on exit)  *)
(* Part B: the argument split of the `fakesnow` command: an argv is built by  *)
(* grammar  <fakesnow options>* <target selector> <target arguments>*  and    *)
(* the target must see exactly its own arguments, in order.                   *)
EXTENDS FsBase

AllDevs == {"C20.failed_enter_leaves_patched", "C20.unloaded_target_keeps_mock"}

\* alias: the connector's connect bound under another name in the target module (replaced like any other binding);
\* notsnow_named: a foreign function that merely is called connect (refused like any non-snowflake function)
\* unloaded_indirect: a module not imported yet that takes connect from an application module imported BEFORE patching (so what it
\* binds is the original); unloaded_noattr: a missing attribute of a module not imported yet (refused like any missing attribute)
OkKinds == {"std", "fromimport", "unloaded", "alias", "unloaded_indirect"}
BadKinds == {"nomodule", "noattr", "notsnow", "notsnow_named", "unloaded_noattr"}
InitSt == [in |-> FALSE, kind |-> "std", conns |-> 0, poisoned |-> FALSE, stale |-> FALSE]

\* ---- observations ----
\*  res    : "ok" | "raised" (the call raised) | "propagated" (the body's exception came out of the with block) | "ran"
\*  std    : "orig" | "fake" - what snowflake.connector.connect and pandas_tools.write_pandas are right now (by identity)
\*  extra  : the extra target of the last successful enter: "orig" | "fake" | "na"
\*  closed : connections made inside the last block: "yes" | "no" | "na" (none were made / still inside)
\*  argv   : what the target program saw in sys.argv (part B)
Obs(res, std, extra, closed) == [res |-> res, std |-> std, extra |-> extra, closed |-> closed, argv |-> <<>>]
ExtraIn(kind) == IF kind = "std" THEN "na" ELSE "fake"
ExtraOut(kind) == IF kind = "std" THEN "na" ELSE "orig"

Steps(st, op, D) ==
  CASE op.k = "enter" ->
         IF st.poisoned THEN {RT(st, Obs("raised", "fake", "na", "na"))}      \* aftermath of the as-built failure: not modelled further
         ELSE IF st.in THEN      \* nested patching is refused, without damage
              {R(st, Obs("raised", "fake", ExtraIn(st.kind), "na"))}
         ELSE IF op.kind \in BadKinds THEN
              \* patch() failed while setting up: the targets are the originals and the instance made for the block that never
              \* began is shut down (closed = "yes": no instance of this call is left with an open engine connection)
              {R(st, Obs("raised", "orig", "na", "yes"))}
              \cup (IF "C20.failed_enter_leaves_patched" \in D
                    THEN {RT([st EXCEPT !.poisoned = TRUE], Obs("raised", "fake", "na", "na"))} ELSE {})
         ELSE LET s2 == [st EXCEPT !.in = TRUE, !.kind = op.kind, !.conns = 0] IN
              {R(s2, Obs("ok", "fake", ExtraIn(op.kind), "na"))}
    [] op.k = "connect" ->   \* offered only inside the block
         LET s2 == [st EXCEPT !.conns = @ + 1] IN {R(s2, Obs("ok", "fake", ExtraIn(st.kind), "na"))}
    [] op.k = "exit" ->      \* leave the block normally or by an exception raised in the body
         LET s2 == [st EXCEPT !.in = FALSE]
             res == IF op.mode = "raise" THEN "propagated" ELSE "ok"
             cl == IF st.conns > 0 THEN "yes" ELSE "na" IN
         {R(s2, Obs(res, "orig", ExtraOut(st.kind), cl))}
         \cup (IF "C20.unloaded_target_keeps_mock" \in D /\ st.kind = "unloaded"
               THEN {R([s2 EXCEPT !.stale = TRUE], Obs(res, "orig", "fake", cl))} ELSE {})
    [] op.k = "argv" ->
         \* the target sees its own name followed by exactly its own arguments
         \* (argv[0] is the target's own name - script path or module file - written "T")
         LET want == [Obs("ran", "orig", "na", "na") EXCEPT !.argv = <<"T">> \o op.rest] IN
         {R(st, want)}

\* ---- vocabulary ----
CONSTANTS MaxConns, MaxOpts, MaxRest
OptForms == {"-d DIR", "--db_path DIR", "--db_path=DIR", "-dDIR"}
TargetForms == {"SCRIPT", "-m MOD", "--module MOD", "--module=MOD", "-mMOD"}
RestToks == {"val", "-x", "--", "-m", "-d", "--db_path=zzz", "other.py", ""}        \* "": an empty-string argument is an argument
Ops(st) ==
  (IF ~st.in THEN [k : {"enter"}, kind : OkKinds \cup BadKinds]
   ELSE [k : {"enter"}, kind : {"std", "fromimport", "notsnow_named"}] \cup [k : {"exit"}, mode : {"ok", "raise"}]
        \cup (IF st.conns < MaxConns THEN [k : {"connect"}] ELSE {}))
  \cup (IF ~st.in /\ ~st.stale THEN [k : {"argv"}, opts : SeqsUpTo(OptForms, MaxOpts), target : TargetForms, rest : SeqsUpTo(RestToks, MaxRest)] ELSE {})

\* ---- C20 on the model ----
StepOk(st, op, r) ==
  /\ (~r.post.in => r.obs.std = "orig" /\ r.obs.extra \in {"orig", "na"})        \* Restored, for every way of leaving
  /\ (r.post.in => r.obs.std = "fake")
  /\ (op.k = "exit" => ~r.post.in /\ (st.conns > 0 => r.obs.closed = "yes"))
  /\ (op.k = "enter" /\ ~st.in /\ op.kind \in BadKinds => r.obs.closed = "yes")   \* a failed set-up leaves no open instance behind
  /\ (op.k = "enter" /\ st.in => r.post = st /\ r.obs.res = "raised")            \* nesting refused without damage
  /\ (op.k = "enter" /\ ~st.in /\ op.kind \in OkKinds => r.post.in)              \* (re-)entry always possible
  /\ (op.k = "argv" => r.obs.argv = <<"T">> \o op.rest)
=============================================================================
