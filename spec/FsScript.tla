------------------------------- MODULE FsScript ------------------------------
(* C16 - execute_string equals one-by-one execution; nop_regexes only no-op  *)
(* the statements that match.                                                *)
(*                                                                           *)
(* One table t (s VARCHAR).  A script is a sequence of items: statements     *)
(* (insert a string literal of some payload class, count the rows, a failing *)
(* statement) and non-statements (line comment, block comment, empty         *)
(* statement).  The table is a bag of payload classes (count vector over PL).*)
EXTENDS FsBase

AllDevs == {}

\* payload classes: literals whose content must survive untouched ( ; -- /* */ '' \\ unicode $$ newline ) and the two
\* "mention" payloads used with nop_regexes
PL == <<"plain", "semi", "dash", "block", "quote", "bslash", "uni", "dollar", "nl", "callx", "granty">>
NP == Len(PL)
PIdx(p) == CHOOSE j \in 1..NP : PL[j] = p
Empty == [j \in 1..NP |-> 0]
Add(bag, p) == [bag EXCEPT ![PIdx(p)] = @ + 1]
RECURSIVE SumSeq(_)
SumSeq(q) == IF q = <<>> THEN 0 ELSE Head(q) + SumSeq(Tail(q))

\* cmt: the comment of table t ("" none); COMMENT ON TABLE / ALTER TABLE .. SET COMMENT are statements of a script like any other
InitSt == [inst |-> FALSE, nop |-> FALSE, t |-> Empty, cmt |-> ""]

\* ---- observations ----
\*  res     : "ok" | "err" (the call raised a ProgrammingError) | "status" (one-row success status)
\*  results : per executed statement, in order: 1 for an insert (rows inserted), the count for a count query
\*  n       : number of cursors execute_string returned (-1: it raised / not applicable)
\*  t       : the table afterwards, read through a raw cursor, as a bag of payload classes
Obs(res, results, n, st2) == [res |-> res, results |-> results, n |-> n, t |-> st2.t, cmt |-> st2.cmt]

IsStmt(it) == it.k \in {"ins", "sel", "fail", "cmton", "cmtset", "status"}
\* "call": CALL foo() inside a script - a statement that matches nop_regexes when the option is on (answered with the status
\* row, nothing executed) and cannot run otherwise (it fails like any failing statement); comments next to it are not part of it
\* "insvar": INSERT INTO t VALUES ($vt_v) with the session variable vt_v = 'abc' set before: an insert of the plain payload
Eff(it, nop) == IF it.k = "call" THEN [k |-> IF nop THEN "status" ELSE "fail"]
                ELSE IF it.k = "insvar" THEN [k |-> "ins", p |-> "plain"] ELSE it
EffItems(items, nop) == [j \in 1..Len(items) |-> Eff(items[j], nop)]
CmtOf(it, c) == IF it.k = "cmton" THEN "c1" ELSE IF it.k = "cmtset" THEN "c2" ELSE c
\* the comment after running items (up to the first failure) from comment c
RECURSIVE RunCmt(_, _)
RunCmt(items, c) == IF items = <<>> THEN c ELSE IF Head(items).k = "fail" THEN c ELSE RunCmt(Tail(items), CmtOf(Head(items), c))
\* run the statements of items in order from table bag b: <<bag, results, failed>>
RECURSIVE Run(_, _, _)
Run(items, b, acc) ==
  IF items = <<>> THEN <<b, acc, FALSE>>
  ELSE LET it == Head(items) IN
       IF ~IsStmt(it) THEN Run(Tail(items), b, acc)                       \* comments / empty statements are ignored
       ELSE IF it.k = "fail" THEN <<b, acc, TRUE>>                        \* stop at the first failure, prefix applied
       ELSE IF it.k = "ins" THEN Run(Tail(items), Add(b, it.p), Append(acc, 1))
       ELSE IF it.k \in {"cmton", "cmtset", "status"} THEN Run(Tail(items), b, Append(acc, -1))      \* a status row, no count
       ELSE Run(Tail(items), b, Append(acc, SumSeq(b)))

Steps(st, op, D) ==
  CASE op.k = "inst" -> LET s2 == [st EXCEPT !.inst = TRUE, !.nop = op.nop] IN {R(s2, Obs("ok", <<>>, -1, s2))}
    [] op.k = "script" ->
         LET items == EffItems(op.items, st.nop)
             r == Run(items, st.t, <<>>)
             s2 == [st EXCEPT !.t = r[1], !.cmt = RunCmt(items, st.cmt)] IN
         IF r[3] THEN \* a failing statement: execute_string raises (no cursor is handed out); one-by-one saw the prefix results
              {R(s2, Obs("err", IF op.via = "string" THEN <<>> ELSE r[2], -1, s2))}
         ELSE {R(s2, Obs("ok", r[2], IF op.via = "string" THEN Len(r[2]) ELSE -1, s2))}
    [] op.k = "nopstmt" ->
         LET w == op.w
             matches == st.nop /\ w \in {"call", "call_upper", "grant"}
             maybe == st.nop /\ w = "call_ws"       \* leading blank before a matching text: "matching" does not settle it
             effect == IF w = "ins_callx" THEN Add(st.t, "callx") ELSE IF w = "ins_granty" THEN Add(st.t, "granty") ELSE st.t
             s2 == [st EXCEPT !.t = effect]
             plain == CASE w \in {"call", "call_upper", "grant", "call_ws"} -> R(st, Obs("err", <<>>, -1, st))   \* not runnable: fails, no effect
                        [] w \in {"ins_callx", "ins_granty"} -> R(s2, Obs("ok", <<1>>, -1, s2))
                        [] w = "sel_grantz" -> R(st, Obs("ok", <<0>>, -1, st))
         IN IF matches THEN {R(st, Obs("status", <<>>, -1, st))}
            ELSE IF maybe THEN {R(st, Obs("status", <<>>, -1, st)), plain}
            ELSE {plain}

\* ---- vocabulary ----
CONSTANTS MaxItems, PayloadsUsed, DataScripts, NopUsed
Items == [k : {"ins"}, p : PayloadsUsed] \cup [k : {"sel", "fail", "lc", "bc", "empty", "ws", "call", "insvar"}]
\* tx: the script runs between BEGIN and COMMIT issued on the same connection - what it did before a failing statement is kept,
\*     exactly as when the statements are executed one by one (the table is read after the COMMIT)
\* empty: with nop = FALSE, whether the instance is made with nop_regexes = [] (an empty pattern set matches nothing) or None;
\* rc: the remove_comments argument of execute_string (comments are not statements either way)
CmtItems == [k : {"cmton", "cmtset"}]
Ops(st) ==
  IF ~st.inst THEN {o \in [k : {"inst"}, nop : BOOLEAN, empty : BOOLEAN] : o.nop => ~o.empty}
  ELSE (IF DataScripts THEN [k : {"script"}, items : SeqsUpTo(Items, MaxItems), via : {"string", "onebyone"}, cc : {"tuple", "dict"}, rc : BOOLEAN, tx : BOOLEAN] ELSE {})
       \cup [k : {"script"}, items : SeqsUpTo(CmtItems, 1) \ {<<>>}, via : {"string", "onebyone"}, cc : {"tuple"}, rc : {FALSE}]
       \cup [k : {"nopstmt"}, w : {"call", "call_ws", "call_upper", "grant", "ins_callx", "ins_granty", "sel_grantz"} \cap NopUsed]

\* ---- C16 on the model ----
StepOk(st, op, r) ==
  /\ (op.k = "script" =>
        \* execute_string and one-by-one execution have the same effect and the same per-statement results
        \A o2 \in {[op EXCEPT !.via = v] : v \in {"string", "onebyone"}} : \A r2 \in Steps(st, o2, {}) :
             r2.post = r.post /\ (r.obs.res = "ok" => r2.obs.results = r.obs.results))
  /\ (op.k = "nopstmt" /\ r.obs.res = "status" => r.post = st /\ st.nop)        \* a no-op'd statement has no effect
  /\ (op.k = "nopstmt" /\ op.w \in {"ins_callx", "ins_granty", "sel_grantz"} => r.obs.res = "ok")   \* others run as without the option
=============================================================================
