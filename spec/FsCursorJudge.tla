---------------------------- MODULE FsCursorJudge ---------------------------
EXTENDS FsCursor, Json, IOUtils, SequencesExt
VARIABLES tid, i, st, verdict, devs
\* a recorded trace carries the delivered positions as the maximal runs <<first, last>> of consecutive positions (a result
\* may have thousands of rows); the specification speaks about the positions themselves.  The encoding loses nothing:
\* <<<<1, 3>>, <<3, 3>>, <<7, 8>>>> stands for <<1, 2, 3, 3, 7, 8>>
\* (FoldLeft is evaluated iteratively: an implementation handing out thousands of rows in disorder gives thousands of runs)
Expand(runs) == FoldLeft(LAMBDA acc, r : acc \o Range(r[1], r[2]), <<>>, runs)
NormObs(op, o) == [o EXCEPT !.rows = Expand(@)]
NormOp(op) == op
Traces == ndJsonDeserialize(IOEnv.TRACE_FILE)
KnownSeq == JsonDeserialize(IOEnv.KNOWN_FILE).known
Known == {n \in AllDevs : \E j \in 1..Len(KnownSeq) : KnownSeq[j] = n}
J == INSTANCE Judge
JInit == J!JInit
JNext == J!JNext
=============================================================================
