------------------------------- MODULE FsIdent -------------------------------
(* C02 - unquoted identifiers fold to upper case; quoted ones are verbatim.  *)
(*                                                                           *)
(* An identifier spelling is one of: lower ab, upper AB, mixed Ab, and the   *)
(* same three inside double quotes.  Fold gives the name the object really   *)
(* has; two spellings denote the same object iff their folds are equal, and  *)
(* every channel that reports a name reports the fold of the spelling the    *)
(* object was created with.  The letter case of keywords never matters.      *)
EXTENDS FsBase

AllDevs == {"C02.create_user_lowercase_keyword", "C02.user_name_not_folded"}

\* fnlower / fnmixed: the name given through the IDENTIFIER('ab') / IDENTIFIER('Ab') function - an unquoted spelling
Spellings == {"lower", "upper", "mixed", "qlower", "qupper", "qmixed", "fnlower", "fnmixed"}
FnSp == {"fnlower", "fnmixed"}
Fold(sp) == CASE sp \in {"lower", "upper", "mixed", "qupper", "fnlower", "fnmixed"} -> "AB" [] sp = "qlower" -> "ab" [] sp = "qmixed" -> "Ab"
Kinds == {"table", "view", "column", "schema", "alias", "variable"}
InitSt == [made |-> [k \in Kinds |-> {}]]

\*  res    : "ok" | "found" | "missing" | "err"
\*  names  : names reported (the status message at creation; a channel's listing), as a set
Obs(res, names) == [res |-> res, names |-> names]

\* the property fixes what is REPORTED and that keyword / unquoted-identifier case is irrelevant; it does not say that
\* "ab" and AB are different objects, so a reference whose fold differs from the object's only in letter case and that
\* involves a quoted spelling may or may not find it
SameObject(f, g) == f = g
CaseVariant(f, g) == f # g          \* (all folds here are spellings of the letters a, b)
Steps(st, op, D) ==
  CASE op.k = "make" ->    \* create the object of this kind (one per kind and behaviour) under spelling sp
         LET f == Fold(op.sp)  s2 == [st EXCEPT !.made[op.kind] = {f}] IN
         {R(s2, Obs("ok", IF op.kind \in {"table", "view", "schema"} THEN {f} ELSE {}))}     \* the status message names the object
    [] op.k = "find" ->    \* refer to it under another spelling, in some statement kind, keywords in some case
         IF st.made[op.kind] = {} THEN {R(st, Obs("missing", {}))}
         ELSE IF Fold(op.sp) \in st.made[op.kind] /\ (op.stmt = "merge_source" => Fold(op.sp2) \in st.made[op.kind])
              THEN {R(st, Obs("found", {}))}
         ELSE {R(st, Obs("found", {})), R(st, Obs("missing", {}))}
    [] op.k = "names" ->   \* what a reporting channel lists for this kind: the fold of the creation spelling, exactly
         {R(st, Obs("ok", st.made[op.kind]))}
    [] op.k = "kwcase" /\ op.what = "set_tag" ->   \* ALTER TABLE t MODIFY COLUMN c SET TAG k = 'v' in any keyword case: accepted
         {R(st, Obs("ok", {}))}
    [] op.k = "kwcase" ->  \* CREATE USER in any keyword case; the (unquoted) user name is reported folded
         {R(st, Obs("ok", {"ZED"}))}
         \cup (IF "C02.create_user_lowercase_keyword" \in D /\ op.kw # "upper" THEN {R(st, Obs("err", {}))} ELSE {})
         \cup (IF "C02.user_name_not_folded" \in D THEN {R(st, Obs("ok", {"zed"}))} ELSE {})
    [] op.k = "quotedpair" ->  \* two statements of one session that differ only in the letter case of a QUOTED identifier:
                               \* SELECT 1 AS "ab" then SELECT 1 AS "Ab" - each reports its own spelling
         {R(st, Obs("ok", {Fold(op.first), Fold(op.second)}))}

Stmts(kind) == CASE kind = "table" -> {"select", "insert", "update", "delete", "describe", "merge_target", "merge_source", "join"}
                 [] kind = "view" -> {"select", "describe"}
                 [] kind = "column" -> {"select", "where", "insert_cols", "update_set", "orderby"}
                 [] kind = "schema" -> {"use", "qualify", "createin", "describe_in", "use_then_describe"}
                 \* an alias of the select list referred to in the same statement's JOIN ... ON / ORDER BY
                 [] kind = "alias" -> {"join_on", "orderby"}
                 [] kind = "variable" -> {"select"}
Channels(kind) == CASE kind = "table" -> {"info_tables", "show_tables", "show_objects", "show_pk"}
                    [] kind = "view" -> {"info_views", "show_objects", "info_tables"}
                    [] kind = "column" -> {"description", "dictkeys", "info_columns", "describe"}
                    [] kind = "schema" -> {"show_schemas", "conn_schema"}
                    \* collist_* / cte_*: the name given in an alias column list  (values ...) AS v(ab)  /  WITH c(ab) AS ...
                    [] kind = "alias" -> {"description", "dictkeys", "collist_description", "collist_dictkeys", "cte_description"}
                    [] kind = "variable" -> {}
SpOf(kind) == IF kind = "variable" THEN {"lower", "upper", "mixed"}
              ELSE IF kind \in {"table", "view", "schema"} THEN Spellings ELSE Spellings \ FnSp
\* where fakesnow supports IDENTIFIER(): CREATE of tables / views / schemas and plain queries / DML on them
FnOk(o) == /\ o.sp2 \notin FnSp
           /\ (o.sp \in FnSp => (o.kind = "table" /\ o.stmt \in {"select", "insert", "update", "delete", "join"})
                                \/ (o.kind = "view" /\ o.stmt = "select"))
CONSTANTS KindsUsed, FindsUsed
Ops(st) ==
  \* tables and views share one namespace, and the engine's catalog is case-insensitive: a table and a view whose names differ
  \* only in letter case cannot both exist there, and the property does not demand that they can (see SameObject above) -
  \* a behaviour makes a table or a view, not both
  UNION {(IF st.made[kd] = {} /\ (kd \in {"table", "view"} => st.made["table"] = {} /\ st.made["view"] = {})
          THEN [k : {"make"}, kind : {kd}, sp : SpOf(kd), kw : {"lower", "upper", "mixed"}] ELSE {})
         \cup (IF FindsUsed THEN {o \in [k : {"find"}, kind : {kd}, sp : SpOf(kd), stmt : Stmts(kd), kw : {"lower", "upper", "mixed"}, sp2 : SpOf(kd)] : FnOk(o)} ELSE {})
         \cup [k : {"names"}, kind : {kd}, ch : Channels(kd)] : kd \in KindsUsed \cap Kinds}
  \cup [k : {"kwcase"}, what : {"create_user", "set_tag"}, name : {"ZED"}, kw : {"lower", "upper", "mixed"}]
  \cup [k : {"quotedpair"}, first : {"qlower", "qupper", "qmixed"}, second : {"qlower", "qupper", "qmixed"}, ch : {"description", "dictkeys"}]

StepOk(st, op, r) ==
  /\ (op.k = "find" /\ Fold(op.sp) \in st.made[op.kind] /\ Fold(op.sp2) \in st.made[op.kind] => r.obs.res = "found")                         \* equal folds denote the same object
  /\ (op.k = "names" => r.obs.names = st.made[op.kind])                                                \* reported name = fold of the creation spelling
  /\ (op.k = "make" /\ r.obs.res = "ok" /\ op.kind \in {"table", "view", "schema"} => r.obs.names = {Fold(op.sp)})
  /\ (op.k = "kwcase" /\ op.what = "create_user" => r.obs.res = "ok" /\ r.obs.names = {"ZED"})
  /\ (op.k = "kwcase" /\ op.what = "set_tag" => r.obs.res = "ok")
  /\ (op.k = "quotedpair" => r.obs.names = {Fold(op.first), Fold(op.second)})                                                             \* keyword case never matters
  \* independence of the keyword case: two operations differing only in kw have the same results
  /\ (op.k \in {"make", "find"} => \A kw2 \in {"lower", "upper", "mixed"} : Steps(st, [op EXCEPT !.kw = kw2], {}) = Steps(st, op, {}))
=============================================================================
