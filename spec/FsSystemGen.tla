------------------------------ MODULE FsSystemGen ------------------------------
(* Model checking and behaviour generation for FsSystem (the composite specification as generator).                 *)
(*   st   : abstract state          hist : operations so far (replayed on    *)
(*   ok   : the step just taken satisfied the property's per-step clauses    *)
(*   nf   : failing operations so far (progress bias for walks)              *)
EXTENDS FsSystem, Json
CONSTANTS Devs, Depth, MaxFails, SampleOneIn
VARIABLES st, hist, nf, ok
IsFail(op, r) == IsErr(r)
Init == st = InitSt /\ hist = <<>> /\ nf = 0 /\ ok = TRUE
Next == \E op \in Ops(st) : \E r \in Steps(st, op, Devs) :
           /\ (IsFail(op, r) => nf < MaxFails)
           /\ st' = r.post /\ hist' = Append(hist, op)
           /\ nf' = IF IsFail(op, r) THEN nf + 1 ELSE nf
           /\ ok' = StepOk(st, op, r)
\* random walks: TLC -simulate picks one successor per step; EmitEnd prints the walk when it is complete
\* progress-biased: a walk may contain at most MaxFails failing operations (every operation is enabled everywhere,
\* uniform choice would spend the depth on failing self-loops)
\* with a db_path ("persist") every sixth operation of a walk is the shut-down and re-opening of the instance (as one
\* operation among ~300 it would hardly ever be drawn)
WalkOps == LET base == {op \in Ops(st) : \E r \in Steps(st, op, Devs) : ~IsErr(r) \/ nf < MaxFails} IN
           IF "persist" \in Feat /\ Len(hist) % 6 = 5 THEN {op \in base : op.k = "restart"} ELSE {op \in base : op.k # "restart"}
\* random walks (-simulate): ordinary steps up to Depth operations, then one step that prints the walk (exactly one
\* candidate successor there, so exactly one line per walk)
WalkStep == \E op \in WalkOps : \E r \in Steps(st, op, Devs) :
           /\ st' = r.post /\ hist' = Append(hist, op) /\ nf' = (IF IsErr(r) THEN nf + 1 ELSE nf) /\ ok' = StepOk(st, op, r)
WalkEnd == Len(hist) = Depth /\ PrintT(<<"B", ToJson(hist)>>) /\ hist' = Append(hist, [k |-> "end"]) /\ UNCHANGED <<st, nf, ok>>
NextWalk == (Len(hist) < Depth /\ WalkStep) \/ WalkEnd
StepInv == ok
Bound == Len(hist) < Depth
ViewSt == <<st, ok>>
EmitAll == PrintT(<<"B", ToJson(hist')>>)
\* one transition in SampleOneIn, chosen by TLC's seeded random generator (large graphs, quick tier)
EmitSample == RandomElement(1..SampleOneIn) = 1 => PrintT(<<"B", ToJson(hist')>>)
\* -simulate: evaluated as an INVARIANT, i.e. only on the states TLC actually walks through: one print per walk
EmitInv == Len(hist) = Depth => PrintT(<<"B", ToJson(hist)>>)
EmitEnd == Len(hist') = Depth => PrintT(<<"B", ToJson(hist')>>)
=============================================================================
