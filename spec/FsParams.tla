------------------------------- MODULE FsParams ------------------------------
(* C08 - bound parameters arrive as data, whatever they contain.             *)
(*                                                                           *)
(* Bind == Literal: executing a statement with bound parameters has the      *)
(* effect of executing it with the values written as correctly quoted        *)
(* literals; so a value bound into INSERT ... VALUES reads back as itself,   *)
(* a value bound into WHERE / IN selects exactly the rows equal to it, a     *)
(* value bound into the select list comes back as itself - and the statement *)
(* keeps its shape (one row written, nothing else touched).  The paramstyle  *)
(* is the one configured when the connection was made.                       *)
EXTENDS FsBase

AllDevs == {"C08.nul_character_rejected", "C08.qmark_merge_rejected"}

Styles == {"pyformat", "format", "qmark"}
StrClasses == {"plain", "quote", "dquote", "bslash", "newline", "percent", "pct_s", "pct_named", "dollar", "qmarkch", "semi", "dash",
               "block", "inject", "unicode", "empty", "nul"}
OtherClasses == {"int", "bigint", "negint", "float", "decimal", "bool", "none", "date", "datetime", "time"}
Classes == StrClasses \cup OtherClasses
\* "merge": the value bound into MERGE ... USING (SELECT %s AS v) ... WHEN NOT MATCHED THEN INSERT: stored as itself
Positions == {"values", "where", "inlist", "select", "like", "merge"}
\* "listparam": ONE placeholder bound to a Python list, "v IN (%s)" (client-side styles only; the elements are escaped and quoted
\* one by one and joined with commas)
\* The connector's own converter renders the elements of a list with quote(escape(v)) only - it has no list form for Decimal,
\* date, datetime and time elements (it raises TypeError for them), so those are not "lists for IN" of a supported type.
ListClasses == StrClasses \cup {"int", "bigint", "negint", "float", "bool", "none"}
PositionsOf(style, vc) == IF style # "qmark" /\ vc \in ListClasses THEN Positions \cup {"listparam"} ELSE Positions

InitSt == [conn |-> "none", glob |-> "pyformat"]

\* ---- observations ----
\*  res    : "ok" | "err"
\*  same   : the value came back / matched as exactly itself (value and Python class), computed on the concrete value
\*  rows   : rows in the parameter table afterwards (the statement wrote exactly one row per parameter set)
\*  others : "ok" when the bystander table and the catalog are untouched
Obs(res, same, rows, others) == [res |-> res, same |-> same, rows |-> rows, others |-> others]

Steps(st, op, D) ==
  CASE op.k = "setglobal" -> LET s2 == [st EXCEPT !.glob = op.style] IN {R(s2, Obs("ok", TRUE, 0, "ok"))}
    [] op.k = "connect" ->   \* the connection snapshots the paramstyle in force now
         LET s2 == [st EXCEPT !.conn = st.glob] IN {R(s2, Obs("ok", TRUE, 0, "ok"))}
    [] op.k = "bind" ->      \* op.style is the style the statement is WRITTEN in; it works iff that is the connect-time style
         IF op.style # st.conn THEN {R(st, Obs("err", FALSE, 0, "ok")), R(st, Obs("ok", FALSE, 0, "ok"))}     \* not constrained
         ELSE {R(st, Obs("ok", TRUE, op.n, "ok"))}
              \cup (IF "C08.nul_character_rejected" \in D /\ op.vc = "nul" THEN {R(st, Obs("err", FALSE, 0, "ok"))} ELSE {})
              \* as built the parameters of a MERGE are handed to every statement it is carried out as; with server-side (qmark)
              \* binding all but one of those have no placeholder and the engine rejects the call
              \cup (IF "C08.qmark_merge_rejected" \in D /\ op.pos = "merge" /\ op.style = "qmark" THEN {R(st, Obs("err", FALSE, 0, "ok"))} ELSE {})

CONSTANTS ClassesUsed
\* "dictre": named parameters given as a dict object that was already used for an earlier execute (the caller's dict is the
\* caller's: binding must not change it)
Forms(style) == IF style = "pyformat" THEN {"seq", "dict", "dictre"} ELSE {"seq"}
\* executemany batches whose column holds values of different Python types, in this order (each set is converted on its own)
MixedClasses == {"mix_none_first", "mix_int_float", "mix_str_none"}
Ops(st) ==
  [k : {"setglobal"}, style : Styles]
  \cup (IF st.conn = "none" THEN [k : {"connect"}] ELSE {})
  \cup (IF st.conn = "none" THEN {} ELSE
        UNION {UNION {[k : {"bind"}, style : {st.conn}, form : Forms(st.conn), pos : PositionsOf(st.conn, vc), vc : {vc}, n : {1}, cur : {"same", "fresh"}]
                      : vc \in ClassesUsed \cap Classes}
               \cup [k : {"bind"}, style : {st.conn}, form : {"many"}, pos : {"values"}, vc : (ClassesUsed \cap Classes) \cup MixedClasses, n : {3}, cur : {"same"}]})

StepOk(st, op, r) ==
  op.k = "bind" /\ op.style = st.conn => r.obs.res = "ok" /\ r.obs.same /\ r.obs.rows = op.n /\ r.obs.others = "ok"
=============================================================================
