------------------------------- MODULE FsSystem ------------------------------
(* The composite specification as a GENERATOR: a sequential reference model   *)
(* of two sessions of one instance in which the features the per-property     *)
(* modules treat one at a time meet - current schema and name resolution      *)
(* (C03), DML with true counts (C04), failing statements that change nothing  *)
(* (C07), transactions (C13), session variables (C15), execute_string and     *)
(* no-op'd statements (C16), reading description (C06), a result set that     *)
(* stays open on its cursor while everything else goes on (C05), and DDL on a *)
(* second table U whose existence every catalog view has to show (C09).       *)
(*                                                                            *)
(* After EVERY operation the whole projected state is observed: what each     *)
(* connection reports and what CURRENT_SCHEMA() says, the value of each       *)
(* connection's variable, and the contents of both tables as each connection  *)
(* sees them.  So a statement of one feature that disturbs another feature's  *)
(* state is seen at once, whatever the combination (a variable substituted    *)
(* inside a script inside a transaction after a USE ...).                     *)
(*                                                                            *)
(*   tab[s]            committed contents of table s.T  (s in {"S1","S2"})    *)
(*   u[s]              the (empty) table s.U, committed: 0 absent, 1 made by  *)
(*                     c1 (one column), 2 made by c2 (two columns)            *)
(*   s[c].sc           current schema of connection c                         *)
(*   s[c].var          value of the session variable N of c (0: not set)      *)
(*   s[c].tx, add, del open transaction and its pending work per table        *)
(*   s[c].upd          pending creations / drops of U (3: nothing pending)    *)
(*   s[c].open, rows   the connection's result cursor: holds a result, and    *)
(*                     the rows of it that have not been handed out yet       *)
(*                                                                            *)
(* The ideal is READ COMMITTED; the engine gives snapshot isolation (known    *)
(* finding C13.reader_transaction_snapshot), so the vocabulary keeps the two  *)
(* indistinguishable: at most one transaction is open at a time and nobody    *)
(* writes while the OTHER connection has it open.  USE DATABASE, MERGE, DDL and text values are left to    *)
(* the per-property modules (their known findings would only be re-found).    *)
EXTENDS FsBase
CONSTANTS Conn,           \* {"c1", "c2"}
          ScriptsUsed,    \* BOOLEAN: two-statement scripts in the vocabulary
          TgtUsed,        \* subset of {"u", "S1", "S2"}: how DML names its table (unqualified / qualified)
          Feat            \* subset of {"cur", "ddl", "dml2", "persist"}: open results / DDL on U / UPDATE, multi-row INSERT, DELETE
                          \* of all rows / the instance keeps its databases under a db_path and can be shut down and opened again

AllDevs == {}
Schemas == {"S1", "S2"}
OwnVals(c) == IF c = "c1" THEN {1, 2} ELSE {3, 4}
Other(c) == CHOOSE d \in Conn : d # c
Empty2 == [x \in Schemas |-> {}]
NoU == [x \in Schemas |-> 0]
NoPend == [x \in Schemas |-> 3]
WidthBy(c) == IF c = "c1" THEN 1 ELSE 2
Idle(sc, var, open, rows) == [sc |-> sc, var |-> var, tx |-> FALSE, add |-> Empty2, del |-> Empty2, upd |-> NoPend,
                              open |-> open, rows |-> rows]
InitSt == [tab |-> Empty2, u |-> NoU, s |-> [c \in Conn |-> Idle("S1", 0, FALSE, <<>>)]]

Visible(st, c, t) == (st.tab[t] \ st.s[c].del[t]) \cup st.s[c].add[t]
VisU(st, c) == [t \in Schemas |-> IF st.s[c].upd[t] = 3 THEN st.u[t] ELSE st.s[c].upd[t]]
VisibleU(st, c) == {t \in Schemas : VisU(st, c)[t] # 0}
ShapeStr(t, w) == CASE t = "S1" /\ w = 1 -> "S1:1" [] t = "S1" -> "S1:2" [] w = 1 -> "S2:1" [] OTHER -> "S2:2"
Sorted(S) == [j \in 1..Cardinality(S) |-> CHOOSE v \in S : Cardinality({w \in S : w < v}) = j - 1]
SortedNames(S) == SelectSeq(<<"S1", "S2">>, LAMBDA n : n \in S)
ConnSeq == <<"c1", "c2">>

\* ---- what is observed after every operation ----
Snap(st) == [ctx |-> [j \in 1..2 |-> <<st.s[ConnSeq[j]].sc, st.s[ConnSeq[j]].sc>>],        \* <<conn.schema, CURRENT_SCHEMA()>>
             var |-> [j \in 1..2 |-> st.s[ConnSeq[j]].var],
             vis |-> [j \in 1..2 |-> <<Sorted(Visible(st, ConnSeq[j], "S1")), Sorted(Visible(st, ConnSeq[j], "S2"))>>],
             \* where U exists: <<by information_schema.tables, by the engine's own catalog, by the description of SELECT * FROM s.U
             \* (name:number of columns)>> as each connection sees it
             cat |-> [j \in 1..2 |-> LET n == SortedNames(VisibleU(st, ConnSeq[j])) IN
                                     <<n, n, [i \in 1..Len(n) |-> ShapeStr(n[i], VisU(st, ConnSeq[j])[n[i]])]>>]]
Obs(res, st) == [res |-> res, got |-> <<>>, snap |-> Snap(st)]
ObsGot(res, got, st) == [res |-> res, got |-> got, snap |-> Snap(st)]

\* ---- single statements: Apply(st, c, a) = [post, r]  (r: the statement's own outcome) ----
Target(st, c, a) == IF a.tgt = "u" THEN st.s[c].sc ELSE a.tgt                  \* an unqualified T is the current schema's
Value(st, c, a) == IF a.src = "var" THEN st.s[c].var ELSE a.v
IsErrR(r) == r \in {"err:novar", "err:missing", "err:exists", "err:other"}

\* the table t as connection c sees it becomes V: at once outside a transaction, as pending work inside one (nobody else
\* writes meanwhile - see the header - so the committed contents are what they were at BEGIN)
SetVisible(st, c, t, V) ==
  IF st.s[c].tx THEN [st EXCEPT !.s[c].add[t] = V \ st.tab[t], !.s[c].del[t] = st.tab[t] \ V]
  ELSE [st EXCEPT !.tab[t] = V]
Write(st, c, t, v, ins) == SetVisible(st, c, t, IF ins THEN Visible(st, c, t) \cup {v} ELSE Visible(st, c, t) \ {v})
SetU(st, c, t, w) == IF st.s[c].tx THEN [st EXCEPT !.s[c].upd[t] = w] ELSE [st EXCEPT !.u[t] = w]
CountStr(n) == CASE n = 0 -> "count:0" [] n = 1 -> "count:1" [] n = 2 -> "count:2" [] n = 3 -> "count:3" [] OTHER -> "count:4"

Apply(st, c, a) ==
  LET x == st.s[c] IN
  CASE a.k = "use"   -> [post |-> [st EXCEPT !.s[c].sc = a.s], r |-> "ok"]
    [] a.k = "set"   -> [post |-> [st EXCEPT !.s[c].var = a.v], r |-> "ok"]
    [] a.k = "unset" -> [post |-> [st EXCEPT !.s[c].var = 0], r |-> "ok"]
    [] a.k \in {"ins", "del"} ->
         IF a.src = "var" /\ x.var = 0 THEN [post |-> st, r |-> "err:novar"]      \* undefined variable: nothing is executed
         ELSE LET t == Target(st, c, a)  v == Value(st, c, a)  hit == IF v \in Visible(st, c, t) THEN 1 ELSE 0 IN
              IF a.k = "ins" THEN [post |-> Write(st, c, t, v, TRUE), r |-> "count:1"]
              ELSE [post |-> Write(st, c, t, v, FALSE), r |-> IF hit = 1 THEN "count:1" ELSE "count:0"]
    [] a.k = "fail"  -> [post |-> st, r |-> "err:missing"]                         \* unknown table / column / schema
    [] a.k \in {"nop", "descr"} -> [post |-> st, r |-> "ok"]
    \* ---- more DML (C04): UPDATE of one value, a two-row INSERT, DELETE without predicate
    [] a.k = "upd" ->
         LET t == Target(st, c, a)  V == Visible(st, c, t) IN
         IF a.v \in V THEN [post |-> SetVisible(st, c, t, (V \ {a.v}) \cup {a.w}), r |-> "count:1"]
         ELSE [post |-> st, r |-> "count:0"]
    [] a.k = "ins2" ->
         LET t == Target(st, c, a) IN [post |-> SetVisible(st, c, t, Visible(st, c, t) \cup OwnVals(c)), r |-> "count:2"]
    [] a.k = "delall" ->
         LET t == Target(st, c, a) IN [post |-> SetVisible(st, c, t, {}), r |-> CountStr(Cardinality(Visible(st, c, t)))]
    \* ---- DDL on the table U (C09 / C03): plain, IF NOT EXISTS / IF EXISTS
    [] a.k = "mk" ->
         LET t == Target(st, c, a) IN
         IF t \in VisibleU(st, c) THEN (IF a.soft THEN [post |-> st, r |-> "ok"] ELSE [post |-> st, r |-> "err:exists"])
         ELSE [post |-> SetU(st, c, t, WidthBy(c)), r |-> "ok"]            \* (each connection creates U with its own shape)
    [] a.k = "rm" ->
         LET t == Target(st, c, a) IN
         IF t \notin VisibleU(st, c) THEN (IF a.soft THEN [post |-> st, r |-> "ok"] ELSE [post |-> st, r |-> "err:missing"])
         ELSE [post |-> SetU(st, c, t, 0), r |-> "ok"]
    [] OTHER -> [post |-> st, r |-> "?"]

\* ---- operations ----
Steps(st, op, D) ==
  LET x == st.s[op.c] IN
  CASE op.k = "begin" ->
         LET s2 == [st EXCEPT !.s[op.c].tx = TRUE] IN {R(s2, Obs(<<"ok">>, s2))}
    [] op.k \in {"commit", "rollback"} ->
         LET tab2 == IF op.k = "commit" THEN [t \in Schemas |-> (st.tab[t] \ x.del[t]) \cup x.add[t]] ELSE st.tab
             u2 == IF op.k = "commit" THEN VisU(st, op.c) ELSE st.u
             s2 == IF x.tx THEN [st EXCEPT !.tab = tab2, !.u = u2, !.s[op.c] = Idle(x.sc, x.var, x.open, x.rows)] ELSE st IN
         \* through the connection's API nothing is returned; as SQL: the success status (inside a transaction the
         \* status row is not constrained by C13, outside it is the standard one)
         IF op.api = "conn" THEN {R(s2, Obs(<<"api">>, s2))}
         ELSE IF x.tx THEN {R(s2, Obs(<<"ok">>, s2)), R(s2, Obs(<<"none">>, s2))} ELSE {R(s2, Obs(<<"ok">>, s2))}
    \* ---- the connection's result cursor (C05): SELECT v FROM T ORDER BY v opens a result with the rows visible NOW;
    \* fetch calls hand them out in order, each once, whatever else has happened in between; then [] / None for ever
    [] op.k = "sel" ->
         LET rows == Sorted(Visible(st, op.c, Target(st, op.c, op)))
             s2 == [st EXCEPT !.s[op.c].open = TRUE, !.s[op.c].rows = rows] IN
         {R(s2, Obs(<<CountStr(Len(rows))>>, s2))}
    [] op.k = "fetch" ->
         LET n == IF op.how = "one" THEN 1 ELSE IF op.how = "many2" THEN 2 ELSE Len(x.rows)
             s2 == [st EXCEPT !.s[op.c].rows = Slice(x.rows, n + 1, Len(x.rows))] IN
         {R(s2, ObsGot(<<IF op.how = "one" /\ x.rows = <<>> THEN "none" ELSE "rows">>, Slice(x.rows, 1, n), s2))}
    \* ---- C18: both connections are closed, the instance is shut down, a new instance is made on the same db_path and both
    \* sessions connect again: everything committed is there, pending work is gone, the sessions are new ones
    [] op.k = "restart" ->
         LET s2 == [st EXCEPT !.s = [c \in Conn |-> Idle("S1", 0, FALSE, <<>>)]] IN {R(s2, Obs(<<"ok">>, s2))}
    [] op.k = "script" ->
         \* execute_string: the statements one by one, stopping at the first failure with the earlier ones applied
         LET a1 == Apply(st, op.c, op.items[1]) IN
         IF IsErrR(a1.r) THEN {R(a1.post, Obs(<<a1.r>>, a1.post))}
         ELSE LET a2 == Apply(a1.post, op.c, op.items[2]) IN
              IF IsErrR(a2.r) THEN {R(a2.post, Obs(<<a2.r>>, a2.post))}
              ELSE {R(a2.post, Obs(<<a1.r, a2.r>>, a2.post))}
    \* a statement rejected for its shape (VALUES rows of different lengths): HOW it is reported is C07's business (as built
    \* the engine's own exception comes through), that it changes nothing - an open transaction included - is stated here
    \* executemany whose FIRST parameter set does not fit the statement: the call fails and nothing is written, whether the sets
    \* are executed one by one (the fake) or built into one multi-row INSERT first (the real connector over HTTP); and no
    \* transaction is opened or closed behind the caller's back (what is written afterwards is seen by the other session at once)
    [] op.k = "emfail" -> {R(st, Obs(<<"err:other">>, st))}
    [] op.k = "fail" /\ op.why = "ragged" -> {R(st, Obs(<<"err:missing">>, st)), R(st, Obs(<<"err:other">>, st))}
    [] OTHER ->
         LET a == Apply(st, op.c, op) IN {R(a.post, Obs(<<a.r>>, a.post))}

\* ---- vocabulary ----
\* nobody writes while the other connection has a transaction open (see the header)
MayWrite(st, c) == ~st.s[Other(c)].tx
Simple(st, c) ==
     [k : {"use"}, s : Schemas]
  \cup [k : {"set"}, v : OwnVals(c)]
  \cup (IF st.s[c].var # 0 THEN [k : {"unset"}] ELSE {})
  \cup (IF MayWrite(st, c)
        THEN {a \in [k : {"ins"}, src : {"lit", "var"}, v : OwnVals(c), tgt : TgtUsed] :
                 /\ (a.src = "var" => a.v = 1 \/ a.v = 3)                        \* (v is not used with src = var: one representative)
                 /\ (a.src = "var" /\ st.s[c].var # 0 => st.s[c].var \notin Visible(st, c, Target(st, c, a)))
                 /\ (a.src = "lit" => a.v \notin Visible(st, c, Target(st, c, a)))}
           \cup {a \in [k : {"del"}, src : {"lit", "var"}, v : OwnVals(c), tgt : TgtUsed] :
                 (a.src = "var" => a.v = 1 \/ a.v = 3)}
        ELSE {})
  \cup (IF "dml2" \in Feat /\ MayWrite(st, c)
        THEN {a \in [k : {"upd"}, v : OwnVals(c), w : OwnVals(c), tgt : TgtUsed] :
                 a.v # a.w /\ a.w \notin Visible(st, c, Target(st, c, a))}                \* (T stays a set of values)
           \cup {a \in [k : {"ins2"}, tgt : TgtUsed] : OwnVals(c) \cap Visible(st, c, Target(st, c, a)) = {}}
           \cup [k : {"delall"}, tgt : TgtUsed]
           \cup [k : {"emfail"}, tgt : TgtUsed]
        ELSE {})
  \cup (IF "ddl" \in Feat /\ MayWrite(st, c) THEN [k : {"mk", "rm"}, soft : BOOLEAN, tgt : TgtUsed] ELSE {})
  \cup [k : {"fail"}, why : {"notable", "nocol", "nosch", "arity", "ragged"}]
  \cup [k : {"nop", "descr"}]

\* statements of a script: unqualified DML only (the qualified forms are covered as single statements)
ScriptItems(st, c) == {a \in Simple(st, c) : a.k \in {"use", "set", "unset", "nop"} \/ (a.k = "fail" /\ a.why = "notable")
                                              \/ (a.k \in {"ins", "del", "delall", "mk", "rm"} /\ a.tgt = "u")}
\* HOW a statement is run (cursor.execute / execute_string of one statement / a bound parameter; a long-lived or a fresh
\* cursor) is not part of the operation: by C16 / C08 / C05 the forms are equivalent, the driver picks one per statement
\* (seeded by the behaviour's identity) and records it next to the operation
WithConn(S, c) == {[f \in DOMAIN a \cup {"c"} |-> IF f = "c" THEN c ELSE a[f]] : a \in S}
Ops(st) ==
  UNION {
       WithConn(Simple(st, c), c)
    \cup (IF st.s[c].tx \/ st.s[Other(c)].tx THEN {} ELSE [k : {"begin"}, c : {c}])      \* one transaction at a time (header)
    \cup [k : {"commit", "rollback"}, c : {c}, api : {"sql", "conn"}]
    \cup (IF ScriptsUsed
          THEN UNION {{[k |-> "script", c |-> c, items |-> <<a1, a2>>] : a2 \in ScriptItems(Apply(st, c, a1).post, c)} :
                      a1 \in {a \in ScriptItems(st, c) : a.k \in {"use", "set"} \/ (a.k = "ins" /\ a.src = "lit")
                                                           \/ (a.k = "mk" /\ ~a.soft)}}
               \* (first statements: the ones with an effect the second one can depend on; keeps scripts from crowding the walks)
          ELSE {})
    \* the result cursor: a query over T, and the fetch calls once a result is there
    \cup (IF "cur" \in Feat
          THEN [k : {"sel"}, c : {c}, tgt : TgtUsed] \cup (IF st.s[c].open THEN [k : {"fetch"}, c : {c}, how : {"one", "many2", "all"}] ELSE {})
          ELSE {})
    : c \in Conn}
  \cup (IF "persist" \in Feat THEN {[k |-> "restart", c |-> "c1"]} ELSE {})
IsErr(r) == IsErrR(r.obs.res[Len(r.obs.res)])

\* ---- the properties on the model (per step) ----
ScriptTouches(op, kinds) == op.k = "script" /\ \E j \in 1..2 : op.items[j].k \in kinds
StepOk(st, op, r) ==
  LET x == st.s[op.c]  y == r.post.s[op.c]  o == Other(op.c) IN
  IF op.k = "restart"
  THEN \* C18: what was committed is found unchanged, nothing else is; the sessions start afresh
       /\ r.post.tab = st.tab /\ r.post.u = st.u
       /\ \A c \in Conn : r.post.s[c] = Idle("S1", 0, FALSE, <<>>)
       /\ \A c \in Conn, t \in Schemas : Visible(r.post, c, t) = st.tab[t]
  ELSE
  \* C13 sticky / C03 / C15 per connection: nothing of the other connection's session changes
  /\ r.post.s[o] = st.s[o]
  \* C03: the current schema changes only by the connection's own USE
  /\ (y.sc # x.sc => op.k = "use" \/ ScriptTouches(op, {"use"}))
  \* C15: the variable changes only by SET / UNSET
  /\ (y.var # x.var => op.k \in {"set", "unset"} \/ ScriptTouches(op, {"set", "unset"}))
  \* C13 atomic: committed data changes only at COMMIT (by exactly the pending work) or by an autocommitted write
  /\ (r.post.tab # st.tab =>
        \/ (op.k = "commit" /\ x.tx /\ \A t \in Schemas : r.post.tab[t] = (st.tab[t] \ x.del[t]) \cup x.add[t])
        \/ (~x.tx /\ (op.k \in {"ins", "del", "upd", "ins2", "delall"} \/ ScriptTouches(op, {"ins", "del", "delall"}))))
  \* ... and so does the catalog (C09: what exists is what was created and not dropped)
  /\ (r.post.u # st.u =>
        \/ (op.k = "commit" /\ x.tx /\ r.post.u = VisU(st, op.c))
        \/ (~x.tx /\ (op.k \in {"mk", "rm"} \/ ScriptTouches(op, {"mk", "rm"}))))
  /\ (op.k = "rollback" => r.post.tab = st.tab /\ r.post.u = st.u /\ ~y.tx /\ y.add = Empty2 /\ y.del = Empty2
                                               /\ y.upd = NoPend)
  \* C05: an open result changes only by the connection's own query / fetch calls on that cursor; fetch calls hand out a
  \* prefix of what is left
  /\ (y.open # x.open \/ y.rows # x.rows => op.k \in {"sel", "fetch"})
  /\ (op.k = "fetch" => /\ r.obs.got \o y.rows = x.rows
                        /\ r.post = [st EXCEPT !.s[op.c].rows = y.rows])
  \* C07: a failing single statement changes nothing at all; C16 no-op / C06 description: neither
  /\ (op.k # "script" /\ IsErr(r) => r.post = st)
  /\ (op.k \in {"nop", "descr", "fail", "emfail"} => r.post = st)
  \* a transaction stays open across everything but COMMIT / ROLLBACK
  /\ (x.tx /\ op.k \notin {"commit", "rollback"} => y.tx)
=============================================================================
