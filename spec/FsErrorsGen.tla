------------------------------ MODULE FsErrorsGen ------------------------------
(* Model checking and behaviour generation for FsErrors (C07).                 *)
(*   st   : abstract state          hist : operations so far (replayed on    *)
(*   ok   : the step just taken satisfied the property's per-step clauses    *)
(*   nf   : failing operations so far (progress bias for walks)              *)
EXTENDS FsErrors, Json
CONSTANTS Devs, Depth, MaxFails, SampleOneIn
VARIABLES st, hist, nf, ok
IsFail(op, r) == IsErr(r)
Init == st = InitSt /\ hist = <<>> /\ nf = 0 /\ ok = TRUE
Next == \E op \in Ops(st) : \E r \in Steps(st, op, Devs) :
           /\ (IsFail(op, r) => nf < MaxFails)
           /\ st' = r.post /\ hist' = Append(hist, op)
           /\ nf' = IF IsFail(op, r) THEN nf + 1 ELSE nf
           /\ ok' = StepOk(st, op, r)
\* random walks: one uniformly chosen operation per step (TLC -simulate follows the single successor)
\* progress-biased: a walk may contain at most MaxFails failing operations (every operation is enabled everywhere,
\* uniform choice would spend the depth on failing self-loops)
WalkOps == {op \in Ops(st) : \E r \in Steps(st, op, Devs) : ~IsErr(r) \/ nf < MaxFails}
NextWalk == \E op \in {RandomElement(WalkOps)} : \E r \in {RandomElement(Steps(st, op, Devs))} :
           /\ st' = r.post /\ hist' = Append(hist, op) /\ nf' = (IF IsErr(r) THEN nf + 1 ELSE nf) /\ ok' = StepOk(st, op, r)
StepInv == ok
Bound == Len(hist) < Depth
ViewSt == <<st, ok>>
EmitAll == PrintT(<<"B", ToJson(hist')>>)
\* one transition in SampleOneIn, chosen by TLC's seeded random generator (large graphs, quick tier)
EmitSample == RandomElement(1..SampleOneIn) = 1 => PrintT(<<"B", ToJson(hist')>>)
EmitEnd == Len(hist') = Depth => PrintT(<<"B", ToJson(hist')>>)
=============================================================================
