--------------------------------- MODULE Gen ---------------------------------
(* Generic model-checking / behaviour-generation wrapper around a functional  *)
(* core  Steps(st, op, D).  Instantiated by Fs<X>Gen.                         *)
(*   - model checking: StepInv (every step the spec allows from a reachable   *)
(*     state satisfies the property's per-step clauses) + module invariants    *)
(*   - generation: hist is the operation sequence; with VIEW ViewSt it is     *)
(*     invisible, so TLC explores states and EmitAll prints one (shortest)    *)
(*     path per transition; without the view every path up to Depth is        *)
(*     printed; in -simulate mode EmitEnd prints the walk when it is complete *)
(*   - walks are progress-biased: at most MaxFails failing operations each    *)
EXTENDS Naturals, Sequences, TLC, Json
CONSTANTS InitSt, Steps(_, _, _), Ops(_), StepOk(_, _, _), IsFail(_, _), Devs, Depth, MaxFails
VARIABLES st, hist, nf

Init == st = InitSt /\ hist = <<>> /\ nf = 0
Next == \E op \in Ops(st) : \E r \in Steps(st, op, Devs) :
           /\ (IsFail(op, r) => nf < MaxFails)
           /\ st' = r.post /\ hist' = Append(hist, op)
           /\ nf' = IF IsFail(op, r) THEN nf + 1 ELSE nf
StepInv == \A op \in Ops(st) : \A r \in Steps(st, op, Devs) : StepOk(st, op, r)
Bound == Len(hist) < Depth
ViewSt == st
EmitAll == PrintT(<<"B", ToJson(hist')>>)
EmitEnd == Len(hist') = Depth => PrintT(<<"B", ToJson(hist')>>)
=============================================================================
