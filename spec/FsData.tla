------------------------------- MODULE FsData -------------------------------
(* C04 - DML changes exactly the right rows and reports the true count.      *)
(*                                                                           *)
(* Two tables t (target) and u (bystander, also the source of INSERT ...     *)
(* SELECT), both (a NUMBER, b VARCHAR).  A table is a bag of rows; a row is  *)
(* <<a, b>> with a in {NULL, 0, 1} and b in {NULL, 'x'}.  NULL is -1 in the  *)
(* integer domain and "null" in the string domain (TLC needs one type per    *)
(* position).  Predicates are evaluated in SQL's three-valued logic.         *)
EXTENDS FsBase

AllDevs == {"C04.rowcount_one_when_zero", "C04.comment_status_is_count"}

NULLI == -1
NULLS == "null"
\* canonical order of the row kinds: a bag is a sequence of counts in this order (JSON friendly)
RowKinds == << <<NULLI, NULLS>>, <<NULLI, "x">>, <<0, NULLS>>, <<0, "x">>, <<1, NULLS>>, <<1, "x">> >>
NK == Len(RowKinds)
KindOf(row) == CHOOSE j \in 1..NK : RowKinds[j] = row
EmptyBag == [j \in 1..NK |-> 0]
BagAdd(bag, j, n) == [bag EXCEPT ![j] = @ + n]
RECURSIVE SumSeq(_)
SumSeq(q) == IF q = <<>> THEN 0 ELSE Head(q) + SumSeq(Tail(q))
Size(bag) == SumSeq(bag)

\* ---- three-valued logic ----
Not3(v) == CASE v = "T" -> "F" [] v = "F" -> "T" [] OTHER -> "U"
And3(v, w) == IF v = "F" \/ w = "F" THEN "F" ELSE IF v = "T" /\ w = "T" THEN "T" ELSE "U"
Or3(v, w) == IF v = "T" \/ w = "T" THEN "T" ELSE IF v = "F" /\ w = "F" THEN "F" ELSE "U"
B3(x) == IF x THEN "T" ELSE "F"
\* eqnull_bx: EQUAL_NULL(b, 'x'); eqnull_an: EQUAL_NULL(a, NULL) - NULL-safe equality: TRUE or FALSE, never unknown
Atoms == {"a=0", "a=1", "a<>0", "anull", "anotnull", "b=x", "true", "false", "a=null", "b<>x", "eqnull_bx", "eqnull_an"}
Atom(p, row) ==
  LET a == row[1]  b == row[2] IN
  CASE p = "a=0"      -> IF a = NULLI THEN "U" ELSE B3(a = 0)
    [] p = "a=1"      -> IF a = NULLI THEN "U" ELSE B3(a = 1)
    [] p = "a<>0"     -> IF a = NULLI THEN "U" ELSE B3(a # 0)
    [] p = "anull"    -> B3(a = NULLI)
    [] p = "anotnull" -> B3(a # NULLI)
    [] p = "b=x"      -> IF b = NULLS THEN "U" ELSE B3(b = "x")
    [] p = "b<>x"     -> IF b = NULLS THEN "U" ELSE B3(b # "x")
    [] p = "true"     -> "T"
    [] p = "false"    -> "F"
    [] p = "a=null"   -> "U"
    [] p = "eqnull_bx" -> B3(b = "x")
    [] p = "eqnull_an" -> B3(a = NULLI)
\* predicates: [t |-> "atom", p] | [t |-> "not", x] | [t |-> "and"/"or", x, y]
RECURSIVE Eval(_, _)
Eval(pr, row) ==
  CASE pr.t = "atom" -> Atom(pr.p, row)
    [] pr.t = "not"  -> Not3(Eval(pr.x, row))
    [] pr.t = "and"  -> And3(Eval(pr.x, row), Eval(pr.y, row))
    [] pr.t = "or"   -> Or3(Eval(pr.x, row), Eval(pr.y, row))
Sel(pr, j) == Eval(pr, RowKinds[j]) = "T"        \* WHERE keeps a row only when the predicate is TRUE

\* ---- state ----
InitSt == [t |-> EmptyBag, u |-> EmptyBag, made |-> FALSE]

Obs(res, status, cols, rc, st) == [res |-> res, status |-> status, cols |-> cols, rc |-> rc, t |-> st.t, u |-> st.u]
\* count statuses
Ins(k, st) == Obs("ok", <<k>>, <<"number of rows inserted">>, k, st)
Upd(k, st) == Obs("ok", <<k, 0>>, <<"number of rows updated", "number of multi-joined rows updated">>, k, st)
Del(k, st) == Obs("ok", <<k>>, <<"number of rows deleted">>, k, st)
\* as built: rowcount falls back to the number of status rows (1) when the affected count is 0
WithRc(o, rc) == [o EXCEPT !.rc = rc]
Count(o, k, D) == {o} \cup (IF "C04.rowcount_one_when_zero" \in D /\ k = 0 THEN {WithRc(o, 1)} ELSE {})

ApplySet(s, row) == CASE s = "a0" -> <<0, row[2]>> [] s = "a1" -> <<1, row[2]>> [] s = "anull" -> <<NULLI, row[2]>>
                      [] s = "bx" -> <<row[1], "x">> [] s = "bnull" -> <<row[1], NULLS>>
Sets == {"a0", "a1", "anull", "bx", "bnull"}

RECURSIVE AddRows(_, _)
AddRows(bag, rows) == IF rows = <<>> THEN bag ELSE AddRows(BagAdd(bag, KindOf(Head(rows)), 1), Tail(rows))

\* how a DML statement reaches fakesnow: "x" cursor.execute with literals (the default when the field is absent), "bind" with
\* every text value as a bound pyformat parameter, "s" as a one-statement script through connection.execute_string (status read
\* from the returned cursor), "sn" through execute_string(..., return_cursors=False): the effect is the same, no status is seen
How(op) == IF "how" \in DOMAIN op THEN op.how ELSE "x"
Blind(o) == [o EXCEPT !.status = <<>>, !.cols = <<>>, !.rc = 0]
Seen(op, S) == IF How(op) = "sn" THEN {[x EXCEPT !.obs = Blind(@)] : x \in S} ELSE S

Steps0(st, op, D) ==
  CASE op.k = "setup" ->
         \* the driver creates t and u with the given contents (through the raw cursor)
         LET s2 == [t |-> AddRows(EmptyBag, op.t), u |-> AddRows(EmptyBag, op.u), made |-> TRUE] IN
         {R(s2, Obs("ok", <<>>, <<>>, 0, s2))}
    [] op.k = "insv" ->
         \* INSERT INTO t [(cols)] VALUES rows ; cl = "a" gives only column a, b becomes NULL
         LET rows == IF op.cl = "a" THEN [j \in 1..Len(op.rows) |-> <<op.rows[j][1], NULLS>>] ELSE op.rows
             s2 == [st EXCEPT !.t = AddRows(st.t, rows)] IN
         {R(s2, Ins(Len(rows), s2))}
    [] op.k = "inss" ->
         LET add == TLCEval([j \in 1..NK |-> IF Sel(op.p, j) THEN st.u[j] ELSE 0])
             s2 == TLCEval([st EXCEPT !.t = [j \in 1..NK |-> st.t[j] + add[j]]])
             k == Size(add) IN
         {R(s2, o) : o \in Count(Ins(k, s2), k, D)}
    [] op.k = "upd" ->
         LET hit == TLCEval([j \in 1..NK |-> IF Sel(op.p, j) THEN st.t[j] ELSE 0])
             k == Size(hit)
             dest == TLCEval([h \in 1..NK |-> KindOf(ApplySet(op.s, RowKinds[h]))])
             moved == TLCEval([j \in 1..NK |-> SumSeq([h \in 1..NK |-> IF dest[h] = j THEN hit[h] ELSE 0])])
             s2 == TLCEval([st EXCEPT !.t = [j \in 1..NK |-> st.t[j] - hit[j] + moved[j]]]) IN
         {R(s2, o) : o \in Count(Upd(k, s2), k, D)}
    [] op.k = "del" ->
         LET hit == TLCEval([j \in 1..NK |-> IF Sel(op.p, j) THEN st.t[j] ELSE 0])
             k == Size(hit)
             s2 == TLCEval([st EXCEPT !.t = [j \in 1..NK |-> st.t[j] - hit[j]]]) IN
         {R(s2, o) : o \in Count(Del(k, s2), k, D)}
    [] op.k = "trunc" ->
         \* the property fixes the effect of TRUNCATE, not its status row: only the tables are observed
         LET s2 == [st EXCEPT !.t = EmptyBag] IN {R(s2, Obs("ok", <<>>, <<>>, 0, s2))}
    [] op.k = "ddl" ->
         \* DDL returns the Snowflake status message naming the (folded) object; rowcount is that of the one status row
         LET msg == CASE op.what \in {"createtable", "createtable_cmt"}  -> "Table " \o op.name \o " successfully created."
                      [] op.what = "createview"   -> "View " \o op.name \o " successfully created."
                      [] op.what = "createschema" -> "Schema " \o op.name \o " successfully created."
                      [] op.what \in {"droptable", "dropview", "dropschema"} -> op.name \o " successfully dropped."
                      [] op.what \in {"addcolumn", "commenton", "setcomment"} -> "Statement executed successfully."
             o == [Obs("ok", <<>>, <<"status">>, 1, st) EXCEPT !.res = msg] IN
         {R(st, o)} \cup
         (IF "C04.comment_status_is_count" \in D /\ op.what \in {"commenton", "setcomment"}
          THEN {R(st, [o EXCEPT !.res = "1"])} ELSE {})

Steps(st, op, D) == Seen(op, Steps0(st, op, D))

\* ---- generator vocabulary ----
CONSTANTS MaxRows, PredSet, InsSel
InsRows == IF InsSel = "few" THEN {<< <<0, "x">> >>, << <<NULLI, NULLS>>, <<1, "x">> >>, << <<0, "x">>, <<0, "x">> >>}
           ELSE SeqsUpTo({RowKinds[j] : j \in 1..NK}, 2) \ {<<>>}
Preds == IF PredSet = "atoms" THEN [t : {"atom"}, p : Atoms]
         ELSE LET A == [t : {"atom"}, p : Atoms] IN
              A \cup [t : {"not"}, x : A] \cup [t : {"and", "or"}, x : A, y : A]
              \cup [t : {"not"}, x : [t : {"and", "or"}, x : [t : {"atom"}, p : {"a=0", "anull"}], y : [t : {"atom"}, p : {"b=x", "a=null", "eqnull_bx"}]]]
RowSet == {RowKinds[j] : j \in 1..NK}
Contents == {q \in SeqsUpTo(RowSet, MaxRows) : \A j \in 1..(Len(q) - 1) : KindOf(q[j]) <= KindOf(q[j + 1])}
\* bystander / INSERT ... SELECT source contents: with a duplicate row and NULLs in both columns
UContents == {<< <<NULLI, "x">>, <<0, "x">>, <<0, "x">> >>, << <<0, NULLS>>, <<1, "x">> >>}
DdlOps == [k : {"ddl"}, what : {"createtable", "createtable_cmt", "createview", "droptable", "dropview"}, q : 1..3, sp : {"lower", "upper", "quoted"}]
          \cup [k : {"ddl"}, what : {"createschema", "dropschema"}, q : 2..3, sp : {"lower", "upper", "quoted"}]
          \cup [k : {"ddl"}, what : {"addcolumn", "commenton", "setcomment"}, q : 1..3, sp : {"lower"}]
NameOf(sp) == IF sp = "quoted" THEN "My obj" ELSE "OBJ"
Ops(st) ==
  IF ~st.made THEN [k : {"setup"}, t : Contents, u : UContents]
  ELSE (IF Size(st.t) + 2 <= MaxRows + 2 THEN [k : {"insv"}, rows : InsRows, cl : {"none", "ab", "ba", "a"}] ELSE {})
       \cup [k : {"inss"}, p : Preds] \cup [k : {"upd"}, p : Preds, s : Sets] \cup [k : {"del"}, p : Preds]
       \cup [k : {"trunc"}]
       \* the other ways of executing a statement, over a small part of the statement space
       \cup [k : {"del"}, p : [t : {"atom"}, p : {"b=x", "b<>x", "a=0", "false"}], how : {"bind", "s", "sn"}]
       \cup [k : {"upd"}, p : [t : {"atom"}, p : {"b=x", "anull", "false"}], s : {"bx", "a1"}, how : {"bind", "s", "sn"}]
       \cup [k : {"inss"}, p : [t : {"atom"}, p : {"b=x", "true", "false"}], how : {"bind", "s", "sn"}]
       \cup (IF Size(st.t) <= MaxRows THEN [k : {"insv"}, rows : InsRows, cl : {"none"}, how : {"bind", "s", "sn"}] ELSE {})
       \cup {[k |-> "ddl", what |-> d.what, q |-> d.q, sp |-> d.sp, name |-> NameOf(d.sp)] : d \in DdlOps}

\* ---- C04 on the model: per-step clauses ----
StepOk(st, op, r) ==
  /\ r.post.u = st.u \/ op.k = "setup"                                      \* the bystander never changes
  /\ (op.k \in {"inss", "upd", "del", "insv"} /\ How(op) # "sn" =>
         /\ r.obs.rc = r.obs.status[1]                                       \* rowcount = status count
         /\ (op.k = "del" => r.obs.status[1] = Size(st.t) - Size(r.post.t))  \* true number of rows removed
         /\ (op.k \in {"insv", "inss"} => r.obs.status[1] = Size(r.post.t) - Size(st.t))
         /\ (op.k = "upd" => Size(r.post.t) = Size(st.t)))
  /\ (op.k = "ddl" => r.post = st /\ r.obs.res \notin {"1", "ok"})
=============================================================================
