------------------------------- MODULE FsErrors ------------------------------
(* C07 - failures are Snowflake errors with the right codes, and change      *)
(* nothing.                                                                  *)
(*                                                                           *)
(* One connection over a fixed catalog (database D1, schema S1, table T,     *)
(* view V) in one of three session states (full context, no schema, no       *)
(* database), with a session variable, an optional open transaction holding  *)
(* pending inserts, and the main cursor's sqlstate.  A failing statement is  *)
(* a stutter step on everything except that sqlstate.                        *)
EXTENDS FsBase

AllDevs == {"C07.drop_database_engine_exception", "C07.context_guard_first_table_only", "C07.cte_name_needs_context",
            "C07.merge_qualified_source_parse_error", "C07.other_database_write_aborts_transaction"}

NONE == "none"
\* causes of failure the property lists, by the statement that exhibits them; q is the qualification level of the name
TableCauses == {"sel", "join", "subq", "cte", "ins", "inssel", "upd", "del", "droptable", "alter", "dropview", "describe",
                "ctas", "createview", "clone", "merge", "truncate"}                       \* refer to a table / view that does not exist
\* mis-shaped use of an existing object; duptable carries a COMMENT clause and other columns, the dupcolumn / renamecol forms
\* are ALTER TABLE [IF EXISTS] t ADD COLUMN <existing> / RENAME COLUMN a TO <existing> (IF EXISTS is about the TABLE only)
OnTCauses == {"nocol", "nofunc", "nvalues", "duptable", "dupview", "dupcolumn", "dupcolumn_ie", "renamecol_dup_ie"}
SchemaCauses == {"selnosch", "createinnosch", "dropschema", "usesc", "dupschema"}      \* q in {2, 3}
\* always fully specified; the *othersch causes name schema S1 - the session's own current schema name - in database D2, which has none
DbCauses == {"selnodb", "createinnodb", "usedb", "dropdb", "dupdb", "createinothersch", "dropothersch"}
OtherCauses == {"undefvar"}

InitSt == [made |-> FALSE, ctx |-> "full", rows |-> 0, tx |-> FALSE, pend |-> 0, var |-> FALSE, open |-> FALSE, ss |-> NONE]

\* ---- observations ----
\*  res   : "ok" | "missing" (ProgrammingError 2003/42S02 or 2043/02000) | "nodb" (90105/22000) | "nosc" (90106/22000)
\*          | "undef" (ProgrammingError, session variable does not exist) | "closed" (DatabaseError 250002/08003) | "exc:<class>"
\*  ss    : the main cursor's sqlstate after the call ("none" for None)
\*  mine / committed : rows of T seen by the connection / through a raw cursor; objs: user objects in the catalog;
\*  ctx: conn.database, conn.schema; var: "set" | "unset"
Obs(res, st2) == [res |-> res, ss |-> st2.ss, mine |-> IF st2.open THEN st2.rows + st2.pend ELSE -1, committed |-> st2.rows,
                  objs |-> <<"T", "V">>,
                  \* T as declared: its comment, its columns, the declared length of its text column - a failed statement
                  \* that names T (CREATE TABLE t ... COMMENT, ALTER TABLE t ADD COLUMN <existing>) leaves them as they were
                  meta |-> <<"c0", "A,B", "VARCHAR(7)">>,
                  ctx |-> CASE st2.ctx = "full" -> <<"D1", "S1">> [] st2.ctx = "nosc" -> <<"D1", NONE>> [] OTHER -> <<NONE, NONE>>,
                  var |-> IF ~st2.open THEN "-" ELSE IF st2.var THEN "set" ELSE "unset"]

SsOf(res) == CASE res = "missing" -> "missing" [] res = "nodb" -> "22000" [] res = "nosc" -> "22000" [] OTHER -> NONE
\* the failure is recorded in the sqlstate of the cursor that ran it: ss models the MAIN cursor only
FailOn(st, res, cur) == LET s2 == IF cur \in {"main", "main_describe"} THEN [st EXCEPT !.ss = SsOf(res)] ELSE st IN R(s2, Obs(res, s2))
Good(st, s2) == LET s3 == [s2 EXCEPT !.ss = NONE] IN R(s3, Obs("ok", s3))

\* what the missing context turns a statement with a level-q name into
CtxRes(st, q, res) == IF q < 3 /\ st.ctx = "nodb" THEN "nodb" ELSE IF q = 1 /\ st.ctx = "nosc" THEN "nosc" ELSE res

Steps(st, op, D) ==
  CASE op.k = "connect" ->
         LET s2 == [st EXCEPT !.made = TRUE, !.open = TRUE, !.ctx = op.ctx] IN {R(s2, Obs("ok", s2))}
    [] op.k = "good" ->
        (CASE op.w = "ins"      -> {Good(st, IF st.tx THEN [st EXCEPT !.pend = @ + 1] ELSE [st EXCEPT !.rows = @ + 1])}
           [] op.w \in {"sel", "describe", "nopcall"} -> {Good(st, st)}     \* nopcall: a statement matched by nop_regexes (success, nothing runs)
           [] op.w = "begin"    -> {Good(st, [st EXCEPT !.tx = TRUE])}
           [] op.w = "commit"   -> {Good(st, [st EXCEPT !.tx = FALSE, !.rows = @ + st.pend, !.pend = 0])}
           [] op.w = "rollback" -> {Good(st, [st EXCEPT !.tx = FALSE, !.pend = 0])}
           [] op.w = "setvar"   -> {Good(st, [st EXCEPT !.var = TRUE])}
           [] op.w = "unsetvar" -> {Good(st, [st EXCEPT !.var = FALSE])})
    [] op.k = "bad" ->
         \* FailFrame: the post-state is the pre-state (apart from the cursor's sqlstate)
         LET base == IF op.cause \in OtherCauses THEN "undef" ELSE "missing"
             res == IF op.cause \in OtherCauses \/ op.cause \in DbCauses THEN base
                    ELSE IF op.cause = "usesc" /\ op.q = 2 /\ st.ctx = "nodb" THEN "nodb" ELSE CtxRes(st, op.q, base)
             alt == IF op.cause = "usesc" /\ op.q = 2 /\ st.ctx = "nodb" THEN {FailOn(st, "missing", op.cur)} ELSE {} IN
         {FailOn(st, res, op.cur)} \cup alt
         \cup (IF "C07.drop_database_engine_exception" \in D /\ op.cause = "dropdb"
               THEN LET s2 == IF op.cur = "main" THEN [st EXCEPT !.ss = NONE] ELSE st IN {R(s2, Obs("exc:ParserException", s2))}
               ELSE {})
         \* as built (the engine's rule: one transaction writes to one attached database) a failing DDL that names ANOTHER database
         \* inside a transaction that has written already raises the engine's InvalidInputException and aborts the transaction;
         \* the aftermath is not modelled (the judge stops)
         \cup (IF "C07.other_database_write_aborts_transaction" \in D /\ op.cause \in {"dropothersch", "createinothersch"} /\ st.tx /\ st.pend > 0
               THEN {RT(s2, [Obs("exc:InvalidInputException", s2) EXCEPT !.mine = -9, !.var = v]) :
                        s2 \in {IF op.cur = "main" THEN [st EXCEPT !.ss = NONE] ELSE st}, v \in {"unset", "?exc:InvalidInputException"}}
               ELSE {})
         \* as built a MERGE whose source is schema- or database-qualified dies in SQL generation (see C12) before any lookup
         \cup (IF "C07.merge_qualified_source_parse_error" \in D /\ op.cause = "merge" /\ op.q >= 2
               THEN LET s2 == IF op.cur = "main" THEN [st EXCEPT !.ss = NONE] ELSE st IN {R(s2, Obs("exc:ParseError", s2))}
               ELSE {})
         \* as built only the FIRST table of a statement is checked for a missing context (checks.py): when that one is
         \* fully qualified the unqualified name falls through to the engine and comes back as "does not exist"
         \cup (IF "C07.context_guard_first_table_only" \in D /\ op.cause \in {"inssel", "ctas", "createview", "clone"} /\ res # base
               THEN {FailOn(st, base, op.cur)} ELSE {})
         \* as built the name of a CTE counts as an unqualified table: a fully qualified statement with a CTE fails with
         \* 90105 / 90106 on a session without database / schema
         \cup (IF "C07.cte_name_needs_context" \in D /\ op.cause = "cte" /\ st.ctx # "full"
               THEN {FailOn(st, IF st.ctx = "nodb" THEN "nodb" ELSE "nosc", op.cur)} ELSE {})
    [] op.k = "close" -> LET s2 == [st EXCEPT !.open = FALSE, !.tx = FALSE, !.pend = 0] IN {R(s2, Obs("ok", s2))}
    [] op.k = "after" ->     \* any use of a closed connection; an execute on the main cursor resets (or sets) its sqlstate
         IF op.w \in {"execute", "execute_nop"} THEN {R(s2, Obs("closed", s2)) : s2 \in {[st EXCEPT !.ss = x] : x \in {NONE, "08003"}}}
         ELSE {R(st, Obs("closed", st))}

\* ---- vocabulary ----
Ops(st) ==
  IF ~st.made THEN [k : {"connect"}, ctx : {"full", "nosc", "nodb"}]
  \* (execute_nop / cursor_execute_nop: a statement the instance's nop_regexes answer without running it - the connection is
  \*  closed all the same)
  ELSE IF ~st.open THEN [k : {"after"}, w : {"execute", "cursor_execute", "commit", "rollback", "execute_string", "execute_nop", "cursor_execute_nop"}]
  ELSE (IF st.ctx = "full" /\ st.rows + st.pend < 2 THEN [k : {"good"}, w : {"ins"}] ELSE {})
       \cup (IF st.ctx = "full" THEN [k : {"good"}, w : {"sel", "describe"}] ELSE {})
       \cup [k : {"good"}, w : (IF st.tx THEN {"commit", "rollback"} ELSE {"begin"}) \cup {"setvar", "unsetvar", "nopcall"}]
       \cup [k : {"bad"}, cause : TableCauses \cup OnTCauses, q : 1..3, cur : {"main", "fresh"}]
       \* the same failures through cursor.describe(query), which must report them like execute does
       \cup [k : {"bad"}, cause : {"sel", "join", "subq", "nocol", "nofunc"}, q : 1..3, cur : {"main_describe"}]
       \cup [k : {"bad"}, cause : SchemaCauses, q : 2..3, cur : {"main", "fresh"}]
       \cup [k : {"bad"}, cause : DbCauses \cup OtherCauses, q : {3}, cur : {"main", "fresh"}]
       \cup [k : {"close"}]
IsErr(r) == r.obs.res \notin {"ok"}

\* ---- C07 on the model ----
StepOk(st, op, r) ==
  /\ (op.k = "bad" =>
        /\ r.obs.res \in {"missing", "nodb", "nosc", "undef"}                       \* ErrClass: never an engine exception
        /\ [r.post EXCEPT !.ss = st.ss] = st                                        \* FailFrame
        /\ (r.obs.res = "nodb" => st.ctx = "nodb") /\ (r.obs.res = "nosc" => st.ctx = "nosc")
        \* NoCtxError: exactly 90105 / 90106 when the statement needs a context the session does not have
        /\ (op.cause \in TableCauses \cup OnTCauses => r.obs.res = CtxRes(st, op.q, "missing")))
  /\ (op.k = "good" => r.post.ss = NONE)                                            \* Sqlstate lifecycle
  /\ (op.k = "after" => r.obs.res = "closed")
=============================================================================
