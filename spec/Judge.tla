-------------------------------- MODULE Judge --------------------------------
(* Generic trace judge.  A trace is a sequence of events [op, obs] recorded   *)
(* from the implementation.  For every event the judge computes the results  *)
(* the specification allows, Steps(st, op, D), looking first at the ideal     *)
(* (D = {}) and then for the smallest set D of *known* deviations that        *)
(* explains the observation, and continues from the matching post-state.      *)
(* Verdicts are total: every trace ends in "ok" (with the deviation names it  *)
(* needed) or "fail" (with the step, what was observed and what was allowed). *)
(*                                                                            *)
(* Instantiated by Fs<X>Judge with the module's InitSt, Steps, AllDevs and    *)
(* NormObs / NormOp (JSON has no sets: these rebuild the spec's shapes).      *)
(* Environment: TRACE_FILE = ndjson, one trace [tid, ev] per line;            *)
(*              KNOWN_FILE = json [known |-> <<names>>] from known_findings.  *)
EXTENDS Naturals, Sequences, FiniteSets, TLC, TLCExt, Json, IOUtils
CONSTANTS InitSt, AllDevs, Steps(_, _, _), NormObs(_, _), NormOp(_),
          Traces, Known     \* defined in the root module so that TLC evaluates them once
VARIABLES tid, i, st, verdict, devs


Ev == Traces[tid].ev
Match(D, e) == {r \in Steps(st, NormOp(e.op), D) : r.obs = NormObs(e.op, e.obs)}
Cands(e) == {D \in (SUBSET Known) \ {{}} : Match(D, e) # {}}
MinC(e) == LET c == Cands(e) IN {D \in c : \A D2 \in c : Cardinality(D) <= Cardinality(D2)}

JInit == /\ tid \in 1..Len(Traces) /\ i = 1 /\ verdict = "run" /\ devs = {} /\ st = InitSt

Advance(r, D) ==
  /\ st' = r.post /\ devs' = devs \cup D /\ i' = i + 1
  /\ LET done == r.term \/ i = Len(Ev) IN
       /\ verdict' = IF done THEN "done" ELSE "run"
       /\ (done => PrintT(<<"V", ToJson([tid |-> Traces[tid].tid, v |-> "ok", at |-> i,
                                         devs |-> devs \cup D, cut |-> r.term])>>))

\* a known deviation that corrupts the STATE without showing in this step's observation (e.g. CLONE losing NOT NULL):
\* same observation as the ideal, another post-state - both continuations are followed, later steps tell them apart
Silent(e, id) == {<<d, r>> \in Known \X UNION {Match({d}, e) : d \in Known} :
                    r \in Match({d}, e) /\ \A x \in id : x.post # r.post}
JStep ==
  /\ verdict = "run" /\ i <= Len(Ev) /\ UNCHANGED tid
  /\ LET e == Ev[i]  id == Match({}, e) IN
       IF id # {} THEN \/ \E r \in id : Advance(r, {})
                       \/ \E x \in Silent(e, id) : Advance(x[2], {x[1]})
       ELSE LET mc == MinC(e) IN
            IF mc # {} THEN \E D \in mc : \E r \in Match(D, e) : Advance(r, D)
            ELSE /\ verdict' = "fail" /\ UNCHANGED <<st, i, devs>>
                 /\ PrintT(<<"V", ToJson([tid |-> Traces[tid].tid, v |-> "fail", at |-> i, devs |-> devs,
                                          got |-> NormObs(e.op, e.obs),
                                          want |-> {r.obs : r \in Steps(st, NormOp(e.op), {})}])>>)
JNext == JStep
=============================================================================
