-------------------------------- MODULE FsTxn --------------------------------
(* C13 - transactions are atomic, isolated between connections, and sticky   *)
(* to their connection.                                                      *)
(*                                                                           *)
(* One table of integer values.  committed is what every connection sees;    *)
(* a connection inside a transaction additionally has pending inserts (add)  *)
(* and deletes (del) that only it sees, through all of its cursors.  Each    *)
(* connection writes its own values only (non-conflicting writes).           *)
(* snap is a ghost: the committed state when the transaction executed its    *)
(* first statement - the ideal (READ COMMITTED, what the property words say) *)
(* ignores it, the recorded as-built deviation reads from it.                *)
EXTENDS FsBase
CONSTANTS Conn

AllDevs == {"C13.reader_transaction_snapshot"}

OwnVals(c) == IF c = "c1" THEN {1, 2} ELSE {3, 4}
\* cmt: a table comment written inside the transaction ("-": none) - Snowflake-side metadata is transactional like rows
Idle == [tx |-> FALSE, add |-> {}, del |-> {}, snapon |-> FALSE, snap |-> {}, cmt |-> "-", scmt |-> ""]
InitSt == [committed |-> {}, ccmt |-> "", s |-> [c \in Conn |-> Idle]]
CmtSeen(st, c) == IF st.s[c].cmt # "-" THEN st.s[c].cmt ELSE st.ccmt

Visible(st, c) == (st.committed \ st.s[c].del) \cup st.s[c].add
\* as built a transaction reads from the snapshot taken by its first statement
VisibleSnap(st, c) == IF st.s[c].tx /\ st.s[c].snapon THEN (st.s[c].snap \ st.s[c].del) \cup st.s[c].add ELSE Visible(st, c)

\* ---- observations ----
\*  res    : "ok" (status row 'Statement executed successfully.') | "none" (no status row) | "count" | "rows" | "err" | "api"
\*  n      : affected count for DML, -1 otherwise
\*  seen   : the values a SELECT returned (as a set)
Obs(res, n, seen) == [res |-> res, n |-> n, seen |-> seen]

\* every statement a transaction executes pins its snapshot if it has none yet (ghost bookkeeping)
Touch(st, c) == IF st.s[c].tx /\ ~st.s[c].snapon THEN [st EXCEPT !.s[c].snapon = TRUE, !.s[c].snap = st.committed, !.s[c].scmt = st.ccmt] ELSE st
CmtSeenSnap(st, c) == IF st.s[c].cmt # "-" THEN st.s[c].cmt ELSE IF st.s[c].tx /\ st.s[c].snapon THEN st.s[c].scmt ELSE st.ccmt

Steps(st, op, D) ==
  LET x == st.s[op.c] IN
  CASE op.k = "begin" ->
         IF x.tx THEN \* BEGIN inside a transaction: a no-op or an error - the property does not say; nothing changes
              {R(st, Obs("ok", -1, {})), R(st, Obs("none", -1, {})), R(st, Obs("err", -1, {}))}
         ELSE LET s2 == [st EXCEPT !.s[op.c].tx = TRUE] IN {R(s2, Obs("ok", -1, {})), R(s2, Obs("none", -1, {}))}
    [] op.k = "ins" ->
         LET t == Touch(st, op.c) IN
         IF x.tx THEN {R([t EXCEPT !.s[op.c].add = @ \cup {op.v}], Obs("count", 1, {}))}
         ELSE {R([st EXCEPT !.committed = @ \cup {op.v}], Obs("count", 1, {}))}
    [] op.k = "del" ->
         LET t == Touch(st, op.c)  hit == IF op.v \in Visible(st, op.c) THEN 1 ELSE 0 IN
         IF x.tx THEN {R([t EXCEPT !.s[op.c].add = @ \ {op.v},
                                   !.s[op.c].del = IF op.v \in st.committed THEN @ \cup {op.v} ELSE @], Obs("count", hit, {}))}
         ELSE {R([st EXCEPT !.committed = @ \ {op.v}], Obs("count", hit, {}))}
    [] op.k = "sel" ->
         LET t == Touch(st, op.c) IN
         {R(t, Obs("rows", -1, Visible(st, op.c)))}
         \cup (IF "C13.reader_transaction_snapshot" \in D THEN {R(t, Obs("rows", -1, VisibleSnap(st, op.c)))} ELSE {})
    [] op.k = "fail" ->      \* a statement that fails inside or outside a transaction changes nothing
         {R(Touch(st, op.c), Obs("err", -1, {}))}
    [] op.k = "cmt" ->       \* COMMENT ON TABLE t IS v  (only connection c1 writes comments: non-conflicting writes)
         IF x.tx THEN {R([Touch(st, op.c) EXCEPT !.s[op.c].cmt = op.v], Obs("ok", -1, {}))}
         ELSE {R([st EXCEPT !.ccmt = op.v], Obs("ok", -1, {}))}
    [] op.k = "readcmt" ->   \* the comment as information_schema.tables shows it to this connection: its own pending one, else the committed one
         {R(Touch(st, op.c), Obs("cmt:" \o CmtSeen(st, op.c), -1, {}))}
         \cup (IF "C13.reader_transaction_snapshot" \in D THEN {R(Touch(st, op.c), Obs("cmt:" \o CmtSeenSnap(st, op.c), -1, {}))} ELSE {})
    [] op.k = "noise" ->     \* something that is neither DML nor a transaction statement: no effect on any transaction
         \*  withblock: "with conn: pass" (entering / leaving the connection's context manager);  cursorctx: a cursor used as a
         \*  context manager for SELECT 1;  setvar: SET of a session variable;  usesame: USE SCHEMA <the current schema>
         {R(st, Obs("ok", -1, {})), R(Touch(st, op.c), Obs("ok", -1, {}))}
    [] op.k \in {"commit", "rollback"} ->
         LET com == IF op.k = "commit" THEN (st.committed \ x.del) \cup x.add ELSE st.committed
             cc == IF op.k = "commit" /\ x.cmt # "-" THEN x.cmt ELSE st.ccmt
             s2 == [st EXCEPT !.committed = com, !.ccmt = cc, !.s[op.c] = Idle] IN
         IF op.api = "conn" THEN {R(IF x.tx THEN s2 ELSE st, Obs("api", -1, {}))}
         ELSE IF x.tx THEN {R(s2, Obs("ok", -1, {})), R(s2, Obs("none", -1, {}))}
         ELSE {R(st, Obs("ok", -1, {}))}       \* outside a transaction: success status row, no effect

\* ---- vocabulary ----
CONSTANTS CursUsed, ThUsed, NoiseUsed, CmtUsed
\* th: the thread that makes the call - the one that opened the connection ("main") or another one ("other"), strictly one after
\* the other; a transaction belongs to its connection, not to a thread
WithTh(S) == UNION {{[f \in DOMAIN o \cup {"th"} |-> IF f = "th" THEN t ELSE o[f]] : t \in ThUsed} : o \in S}
Ops(st) == WithTh(
  UNION {
    (IF st.s[c].tx THEN {} ELSE [k : {"begin"}, c : {c}, u : CursUsed])    \* nested BEGIN is outside the property's scope
    \cup [k : {"sel", "fail"}, c : {c}, u : CursUsed]
    \cup [k : {"commit", "rollback"}, c : {c}, u : CursUsed, api : {"sql", "conn"}]
    \* how: the value is written by INSERT or by a MERGE with a NOT MATCHED clause (same meaning, other code path)
    \cup [k : {"ins"}, c : {c}, u : CursUsed, v : OwnVals(c) \ Visible(st, c), how : {"insert", "merge"}]
    \cup [k : {"del"}, c : {c}, u : CursUsed, v : OwnVals(c) \cap Visible(st, c)]
    \cup [k : {"noise"}, c : {c}, u : CursUsed, w : NoiseUsed]
    \cup (IF CmtUsed THEN [k : {"readcmt"}, c : {c}, u : CursUsed] \cup (IF c = "c1" THEN [k : {"cmt"}, c : {c}, u : CursUsed, v : {"k1", "k2"}] ELSE {}) ELSE {})
    : c \in Conn})
IsErr(r) == r.obs.res = "err"

\* ---- C13 on the model ----
StepOk(st, op, r) ==
  LET x == st.s[op.c] IN
  \* Atomic / NoTrace: committed changes only at COMMIT (by exactly the pending work) or at an autocommitted statement
  /\ (r.post.committed # st.committed =>
        \/ (op.k = "commit" /\ x.tx /\ r.post.committed = (st.committed \ x.del) \cup x.add)
        \/ (op.k \in {"ins", "del"} /\ ~x.tx))
  /\ (op.k = "rollback" => r.post.committed = st.committed /\ r.post.s[op.c] = Idle)
  \* Isolation: a SELECT sees committed work plus the connection's own pending work, nothing of the other's
  /\ (op.k = "sel" => r.obs.seen = (st.committed \ x.del) \cup x.add)
  \* sticky: another connection's transaction state is never touched
  /\ \A c \in Conn \ {op.c} : r.post.s[c] = st.s[c]
  \* NoOpCommit: COMMIT / ROLLBACK outside a transaction succeed with the status row and change nothing
  /\ (op.k \in {"commit", "rollback"} /\ ~x.tx /\ op.api = "sql" => r.obs.res = "ok" /\ r.post = st)
  /\ (op.k = "readcmt" => r.obs.res = "cmt:" \o CmtSeen(st, op.c) /\ r.post.ccmt = st.ccmt)
  /\ (op.k = "cmt" /\ x.tx => r.post.ccmt = st.ccmt)                             \* a comment written in a transaction is not published before COMMIT
  /\ (op.k = "rollback" => r.post.ccmt = st.ccmt)
  /\ (op.k = "noise" => r.obs.res = "ok" /\ r.post.committed = st.committed /\ r.post.s[op.c].tx = x.tx
                         /\ r.post.s[op.c].add = x.add /\ r.post.s[op.c].del = x.del)
  /\ (op.k = "fail" => r.post.committed = st.committed /\ r.post.s[op.c].add = x.add /\ r.post.s[op.c].tx = x.tx)
=============================================================================
