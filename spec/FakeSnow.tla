------------------------------- MODULE FakeSnow ------------------------------
(* The composite (system) specification: the frame every connection and      *)
(* cursor of fakesnow moves in, whatever the statement.                       *)
(*                                                                            *)
(* The per-property modules (FsSession, FsCursor, FsDescr, FsErrors, FsData)  *)
(* specify single features over small generated vocabularies.  This module    *)
(* composes the clauses of those properties that hold for EVERY statement -   *)
(* the ones that can be evaluated on executions nobody generated: the         *)
(* repository's own test-suite and any other recorded run.  It is a trace     *)
(* specification in the strict sense: the state is rebuilt from the events of *)
(* harness/trace_plugin.py (one per public call, outermost call only), every  *)
(* clause is evaluated at every step, and what the recorder did not log (the  *)
(* size of a result set, the fetch position, the current context of each      *)
(* connection, which sqlstate a cursor has to show) is carried by the         *)
(* specification from step to step.                                           *)
(*                                                                            *)
(*   connections  c |-> [known, db, sc, closed]                               *)
(*   cursors      k |-> [c, has, n, idx, ss, w, kn, names, cls, rc]           *)
(*     has  "no"  nothing executed yet        "yes" holds a result of n rows  *)
(*          "unk" not claimed (failed execute: the property lets the old      *)
(*                result stay or go; describe(): runs on the cursor itself)   *)
(*     n    size of the result (-1: not known), idx rows handed out so far    *)
(*     w    width of the result (-1: not yet seen), names: description names  *)
(*                                                                            *)
(* Check(st, e) is the set of clauses event e violates in state st; Upd is    *)
(* the successor state.  The state follows the LOGGED values after a          *)
(* violation (re-synchronisation), so one violation does not hide the rest    *)
(* of the trace.  Clause names start with the property they belong to.        *)
EXTENDS FsBase

NoNames == <<>>
Conn0 == [known |-> FALSE, db |-> "", sc |-> "", closed |-> FALSE]
Cur0(c) == [c |-> c, has |-> "no", n |-> -1, idx |-> 0, ss |-> "", w |-> -1, kn |-> FALSE, names |-> NoNames,
            cls |-> "any", rc |-> -1, dict |-> FALSE, seen |-> FALSE]
InitSt == [conns |-> <<>>, curs |-> <<>>]     \* functions over the ids seen so far (ids are small naturals)

HasConn(st, c) == c \in DOMAIN st.conns
HasCur(st, k) == k \in DOMAIN st.curs
ConnOf(st, c) == IF HasConn(st, c) THEN st.conns[c] ELSE Conn0
CurOf(st, k, c) == IF HasCur(st, k) THEN st.curs[k] ELSE [Cur0(c) EXCEPT !.has = "unk"]   \* made before recording began
Put(f, k, v) == [x \in DOMAIN f \cup {k} |-> IF x = k THEN v ELSE f[x]]

DmlKinds == {"insert", "update", "delete"}
StatusKinds == DmlKinds \cup {"merge"}

\* ------------------------------------------------------------------ C03 / C07: the session context of a connection
\* what the connection may report after a SUCCESSFUL statement of class cls, given what it reported before
CtxAfter(cn, e) ==
  LET same == {<<cn.db, cn.sc>>} IN
  CASE e.cls = "use_db"      -> {<<e.a1, s>> : s \in {cn.sc, "", e.sc}}            \* the schema after USE DATABASE is not fixed by C03
    [] e.cls = "use_schema"  -> {<<IF e.a1 = "" THEN cn.db ELSE e.a1, e.a2>>}
    [] e.cls = "drop_db"     -> IF e.a1 = cn.db THEN {<<"", "">>} ELSE same
    [] e.cls = "drop_schema" -> IF e.a2 = cn.sc /\ e.a1 \in {"", cn.db} THEN {<<cn.db, "">>} ELSE same
    [] e.cls = "any"         -> {<<e.db, e.sc>>}                                   \* not claimed
    [] OTHER                 -> same

\* ------------------------------------------------------------------ C07: the error table
CodeOk(e) ==
  /\ (e.errno = 2003 => e.est = "42S02")
  /\ (e.errno = 2043 => e.est = "02000")
  /\ (e.errno \in {90105, 90106} => e.est = "22000")
  /\ (e.errno = 250002 => e.est = "08003")

\* ------------------------------------------------------------------ the clauses
CheckExec(st, e) ==
  LET cn == ConnOf(st, e.c)  cu == CurOf(st, e.k, e.c) IN
     (IF e.closed /\ ~(e.res = "err" /\ e.ek = "db" /\ e.errno = 250002 /\ e.est = "08003")
        THEN {"C07.closed_connection_error"} ELSE {})
  \cup (IF e.res = "err" /\ ~CodeOk(e) THEN {"C07.errno_sqlstate_table"} ELSE {})
  \cup (IF e.res = "err" /\ e.ek = "prog" /\ e.ss # e.est THEN {"C07.sqlstate_shows_failure"} ELSE {})
  \cup (IF e.res = "ok" /\ e.ss # "" THEN {"C07.sqlstate_reset_by_execute"} ELSE {})
  \cup (IF e.res = "err" /\ cn.known /\ <<e.db, e.sc>> # <<cn.db, cn.sc>> THEN {"C07.failure_changes_context"} ELSE {})
  \cup (IF e.res = "ok" /\ cn.known /\ e.via = "x" /\ <<e.db, e.sc>> \notin CtxAfter(cn, e) THEN {"C03.context_frame"} ELSE {})
  \cup (IF e.res = "ok" /\ e.via = "x" /\ e.cls \in {"query"} \cup StatusKinds /\ e.rc < 0 THEN {"C05.rowcount_available"} ELSE {})

ExpectCount(cu, e) ==       \* rows a fetch call has to hand out (-1: not claimed)
  IF cu.has # "yes" \/ cu.n < 0 THEN -1
  ELSE LET left == Max(cu.n - cu.idx, 0) IN
       CASE e.f = "one"    -> Min(1, left)
         [] e.f = "many"   -> IF e.size >= 1 THEN Min(e.size, left) ELSE -1
         [] e.f = "all"    -> left
         [] e.f = "pandas" -> cu.n

CheckFetch(st, e) ==
  LET cu == CurOf(st, e.k, e.c)  want == ExpectCount(cu, e) IN
     (IF cu.has = "no" /\ e.res # "noresult" THEN {"C05.fetch_before_execute"} ELSE {})
  \cup (IF cu.has = "yes" /\ e.res \in {"noresult", "err"} THEN {"C05.fetch_fails_with_result"} ELSE {})
  \cup (IF want >= 0 /\ e.res \in {"rows", "none"} /\ e.n # want THEN {"C05.rows_handed_out"} ELSE {})
  \cup (IF want >= 0 /\ e.f = "one" /\ ((want = 0) # (e.res = "none")) THEN {"C05.fetchone_end"} ELSE {})
  \cup (IF cu.has = "yes" /\ cu.w >= 0 /\ e.w >= 0 /\ e.w # cu.w THEN {"C05.row_width"} ELSE {})
  \cup (IF cu.has = "yes" /\ cu.kn /\ e.w >= 0 /\ e.f # "pandas" /\ e.w # Len(cu.names) THEN {"C06.one_entry_per_column"} ELSE {})
  \cup (IF cu.has = "yes" /\ cu.kn /\ e.isdict /\ e.keys # Dedup(cu.names) THEN {"C06.names_are_dict_keys"} ELSE {})
  \cup (IF cu.has = "yes" /\ cu.kn /\ e.f = "pandas" /\ e.keys # cu.names THEN {"C06.names_are_frame_columns"} ELSE {})
  \cup (IF cu.has = "yes" /\ cu.cls \in DmlKinds /\ cu.idx = 0 /\ e.n >= 1 /\ e.cell >= 0 /\ cu.rc >= 0 /\ e.cell # cu.rc
          THEN {"C04.status_row_is_rowcount"} ELSE {})
  \cup (IF cu.seen /\ e.ss # cu.ss THEN {"C07.sqlstate_kept_until_execute"} ELSE {})
  \cup (IF cu.has = "yes" /\ cu.rc # e.rc THEN {"C05.rowcount_stable"} ELSE {})

CheckDescr(st, e) ==
  LET cu == CurOf(st, e.k, e.c) IN
     (IF cu.has = "yes" /\ e.res # "ok" THEN {"C06.description_available"} ELSE {})
  \cup (IF cu.has = "no" /\ e.res # "none" THEN {"C06.description_before_execute"} ELSE {})
  \cup (IF cu.has = "yes" /\ e.res = "ok" /\ cu.w >= 0 /\ Len(e.names) # cu.w THEN {"C06.one_entry_per_column"} ELSE {})
  \cup (IF cu.has = "yes" /\ e.res = "ok" /\ cu.kn /\ e.names # cu.names THEN {"C06.description_stable"} ELSE {})
  \cup (IF cu.seen /\ e.ss # cu.ss THEN {"C07.sqlstate_kept_until_execute"} ELSE {})
  \cup (IF cu.has = "yes" /\ cu.rc # e.rc THEN {"C06.reading_description_changes_nothing"} ELSE {})

Check(st, e) ==
  CASE e.t = "exec"  -> CheckExec(st, e)
    [] e.t = "fetch" -> CheckFetch(st, e)
    [] e.t = "descr" -> CheckDescr(st, e)
    [] OTHER -> {}

\* ------------------------------------------------------------------ the successor state (follows the logged values)
Forget(conns, but) == [c \in DOMAIN conns |-> IF c = but THEN conns[c] ELSE [conns[c] EXCEPT !.known = FALSE]]

Upd(st, e) ==
  CASE e.t = "connect" -> [st EXCEPT !.conns = Put(@, e.c, [known |-> TRUE, db |-> e.db, sc |-> e.sc, closed |-> e.closed])]
    [] e.t = "close"   -> [st EXCEPT !.conns = Put(@, e.c, [ConnOf(st, e.c) EXCEPT !.closed = TRUE])]
    [] e.t = "cursor"  -> [st EXCEPT !.curs = Put(@, e.k, [Cur0(e.c) EXCEPT !.dict = e.dict, !.seen = TRUE,
                                                                        !.has = IF e.internal THEN "unk" ELSE "no"])]
    [] e.t = "exec" ->
         LET cu == CurOf(st, e.k, e.c)
             n2 == IF e.cls \in StatusKinds THEN 1 ELSE IF e.cls = "query" THEN e.rc ELSE -1
             cu2 == IF e.res = "ok" /\ e.via = "x"
                    THEN [cu EXCEPT !.has = "yes", !.n = n2, !.idx = 0, !.ss = e.ss, !.w = -1, !.kn = FALSE, !.names = NoNames,
                                    !.cls = e.cls, !.rc = e.rc, !.seen = TRUE]
                    ELSE [cu EXCEPT !.has = "unk", !.n = -1, !.idx = 0, !.ss = e.ss, !.w = -1, !.kn = FALSE, !.names = NoNames,
                                    !.cls = "any", !.rc = e.rc, !.seen = TRUE]
             cn2 == [ConnOf(st, e.c) EXCEPT !.known = TRUE, !.db = e.db, !.sc = e.sc]
             \* a drop may take away what OTHER connections have as their current database / schema: not claimed for them
             conns1 == Put(st.conns, e.c, cn2)
             conns2 == IF e.res = "ok" /\ e.cls \in {"drop_db", "drop_schema", "any"} THEN Forget(conns1, e.c) ELSE conns1 IN
         [st EXCEPT !.curs = Put(@, e.k, cu2), !.conns = conns2]
    [] e.t = "fetch" ->
         LET cu == CurOf(st, e.k, e.c)
             cu2 == [cu EXCEPT !.idx = IF e.f = "pandas" THEN @ ELSE @ + e.n,
                               !.w = IF e.w >= 0 /\ e.f # "pandas" THEN e.w ELSE @,
                               \* a result whose size was not claimed: a short fetchmany / fetchall tells it
                               !.n = IF @ < 0 /\ cu.has = "yes" /\ e.res \in {"rows", "none"} /\
                                        (e.f = "all" \/ (e.f = "one" /\ e.res = "none") \/ (e.f = "many" /\ e.size >= 1 /\ e.n < e.size))
                                     THEN cu.idx + e.n ELSE @,
                               !.ss = e.ss, !.seen = TRUE] IN
         [st EXCEPT !.curs = Put(@, e.k, cu2)]
    [] e.t = "descr" ->
         LET cu == CurOf(st, e.k, e.c)
             cu2 == IF e.res = "ok" /\ cu.has = "yes" THEN [cu EXCEPT !.kn = TRUE, !.names = e.names, !.ss = e.ss, !.seen = TRUE]
                    ELSE [cu EXCEPT !.ss = e.ss, !.seen = TRUE] IN
         [st EXCEPT !.curs = Put(@, e.k, cu2)]
    [] OTHER -> st
=============================================================================
