---------------------------- MODULE FakeSnowJudge ---------------------------
(* Judges recorded executions (ndjson, one trace [tid, ev] per line) against  *)
(* the composite specification FakeSnow: a deterministic fold - one TLC state *)
(* per event - that evaluates every clause at every step and prints, per      *)
(* trace, the clauses violated and where.                                     *)
EXTENDS FakeSnow, Json, IOUtils
VARIABLES tid, i, st, bad

Traces == ndJsonDeserialize(IOEnv.TRACE_FILE)
Ev == Traces[tid].ev

JInit == tid \in 1..Len(Traces) /\ i = 1 /\ st = InitSt /\ bad = <<>>

JNext ==
  /\ i <= Len(Ev) /\ UNCHANGED tid
  /\ LET e == Ev[i]  v == Check(st, e) IN
       /\ st' = Upd(st, e)
       /\ bad' = IF v = {} THEN bad ELSE Append(bad, [at |-> i, clauses |-> v])
       /\ i' = i + 1
       /\ (i = Len(Ev) => PrintT(<<"V", ToJson([tid |-> Traces[tid].tid, n |-> Len(Ev), bad |-> bad'])>>))
=============================================================================
