------------------------------- MODULE FsVars -------------------------------
(* C15 - session variables substitute exactly, per connection.               *)
(*                                                                           *)
(* vars[c][name] is the value most recently SET for exactly that (folded)    *)
(* name on connection c, or "unset".  A use of $name in any letter case      *)
(* stands for that value; nothing else in a statement is touched.            *)
EXTENDS FsBase

AllDevs == {"C15.ref_in_string_literal", "C15.expr_value_textual"}

CONSTANTS Conns, Names, Vals, CasingsUsed, CursUsed       \* Names \subseteq {"V","V1","V10","B","AB"}; Vals \subseteq {"n7","n42","sx","sq","expr"}
UNSET == "unset"
Casings == {"lower", "upper", "mixed"}
Spell(n, cs) ==
  IF cs = "upper" THEN n
  ELSE CASE n = "V" -> "v" [] n = "V1" -> "v1" [] n = "V10" -> "v10" [] n = "B" -> "b"
         [] n = "AB" -> IF cs = "lower" THEN "ab" ELSE "aB"
\* what a value is as a query result / doubled / as SQL text (the latter only matters as built)
\* fcoal: COALESCE(NULL, NULL, 7);  fconc: CONCAT('he', 'l', 'lo')  (values given by function calls with several arguments)
ValStr(v) == CASE v = "n7" -> "7" [] v = "n42" -> "42" [] v = "sx" -> "x" [] v = "sq" -> "it's" [] v = "expr" -> "3" [] v = "nneg" -> "-5"
               [] v = "fcoal" -> "7" [] v = "fconc" -> "hello"
Numeric(v) == v \in {"n7", "n42", "expr", "nneg", "fcoal"}
Mul2(v) == CASE v = "n7" -> "14" [] v = "n42" -> "84" [] v = "expr" -> "6" [] v = "nneg" -> "-10" [] v = "fcoal" -> "14"
ValText(v) == CASE v = "n7" -> "7" [] v = "n42" -> "42" [] v = "expr" -> "1 + 2" [] v = "nneg" -> "-5" [] v = "fcoal" -> "COALESCE(NULL, NULL, 7)" [] OTHER -> "?"

InitSt == [vars |-> [c \in Conns |-> [n \in Names |-> UNSET]]]

Obs(res, vals) == [res |-> res, vals |-> vals]
Undef(n) == Obs("undef:" \o n, <<>>)
Look(st, c, n) == st.vars[c][n]

Steps(st, op, D) ==
  CASE op.k = "set" ->
         LET s2 == [st EXCEPT !.vars[op.c][op.n] = op.v] IN {R(s2, Obs("ok", <<>>))}
    [] op.k = "unset" ->
         \* unsetting a variable that is not set: success or a ProgrammingError - the property does not say
         LET s2 == [st EXCEPT !.vars[op.c][op.n] = UNSET] IN
         {R(s2, Obs("ok", <<>>))} \cup (IF Look(st, op.c, op.n) = UNSET THEN {R(st, Obs("perr", <<>>))} ELSE {})
    [] op.k = "sel" ->       \* select $n
         LET v == Look(st, op.c, op.n) IN
         IF v = UNSET THEN {R(st, Undef(op.n))} ELSE {R(st, Obs("rows", <<ValStr(v)>>))}
    [] op.k = "mul" ->       \* select $n * 2   (offered for numeric values only)
         LET v == Look(st, op.c, op.n) IN
         IF v = UNSET THEN {R(st, Undef(op.n))}
         ELSE {R(st, Obs("rows", <<Mul2(v)>>))}
              \cup (IF "C15.expr_value_textual" \in D /\ v = "expr" THEN {R(st, Obs("rows", <<"5">>))} ELSE {})
    [] op.k = "both" ->      \* select $n, $m
         LET v == Look(st, op.c, op.n)  w == Look(st, op.c, op.m) IN
         IF v = UNSET THEN {R(st, Undef(op.n))} ELSE IF w = UNSET THEN {R(st, Undef(op.m))}
         ELSE {R(st, Obs("rows", <<ValStr(v), ValStr(w)>>))}
    [] op.k = "lit" ->       \* select 'p $<spelled name> q' : a string literal is not a variable reference
         LET v == Look(st, op.c, op.n) IN
         {R(st, Obs("rows", <<"p $" \o Spell(op.n, op.cs) \o " q">>))}
         \cup (IF "C15.ref_in_string_literal" \in D
               THEN IF v = UNSET THEN {R(st, Undef(op.n))}
                    ELSE IF Numeric(v) THEN {R(st, Obs("rows", <<"p " \o ValText(v) \o " q">>))}
                    ELSE {R(st, Obs("exc", <<>>))}        \* the spliced quotes no longer parse
               ELSE {})
    [] op.k = "setsel" ->    \* one execute_string call:  SET n = v; SELECT $n  - the second statement sees the first one's effect
         LET s2 == [st EXCEPT !.vars[op.c][op.n] = op.v] IN {R(s2, Obs("rows", <<ValStr(op.v)>>))}
    [] op.k = "lit2" ->      \* select 'US$$', $n : a literal holding $$ in front of a reference
         LET v == Look(st, op.c, op.n) IN
         IF v = UNSET THEN {R(st, Undef(op.n))} ELSE {R(st, Obs("rows", <<"US$$", ValStr(v)>>))}
    [] op.k = "bind" ->      \* select %s  with the bound text 'p $<spelled name> q': bound data is never a reference
         {R(st, Obs("rows", <<"p $" \o Spell(op.n, op.cs) \o " q">>))}
    [] op.k = "other" ->     \* a statement that neither sets nor uses a variable (some are answered without reaching the engine:
                             \* ALTER TABLE .. CLUSTER BY, a statement matched by nop_regexes): no variable of any connection changes
         {R(st, Obs("ok", <<>>))}
    [] op.k = "lit5" ->      \* select 'cost $5'
         {R(st, Obs("rows", <<"cost $5">>))}
         \cup (IF "C15.ref_in_string_literal" \in D THEN {R(st, Undef("5"))} ELSE {})

Ops(st) ==
  LET Cur == [c : Conns, u : CursUsed] IN
  {[k |-> "set", c |-> x.c, u |-> x.u, n |-> n, cs |-> cs, v |-> v] : x \in Cur, n \in Names, cs \in CasingsUsed, v \in Vals}
  \cup {[k |-> kk, c |-> x.c, u |-> x.u, n |-> n, cs |-> cs] : kk \in {"unset", "sel", "lit"}, x \in Cur, n \in Names, cs \in CasingsUsed}
  \cup UNION {{[k |-> "mul", c |-> x.c, u |-> x.u, n |-> n, cs |-> cs] :
                  n \in {m \in Names : st.vars[x.c][m] = UNSET \/ Numeric(st.vars[x.c][m])}, cs \in CasingsUsed} : x \in Cur}
  \cup {o \in {[k |-> "both", c |-> x.c, u |-> x.u, n |-> n, m |-> m, cs |-> cs] : x \in Cur, n \in Names, m \in Names, cs \in CasingsUsed \ {"mixed"}} : o.n # o.m}
  \cup {[k |-> "lit5", c |-> x.c, u |-> x.u] : x \in Cur}
  \cup {[k |-> kk, c |-> x.c, u |-> x.u, n |-> n, cs |-> cs] : kk \in {"bind", "lit2"}, x \in Cur, n \in Names, cs \in CasingsUsed}
  \cup {[k |-> "setsel", c |-> x.c, u |-> x.u, n |-> n, cs |-> cs, v |-> v] : x \in Cur, n \in Names, cs \in CasingsUsed, v \in Vals}
  \cup {[k |-> "other", c |-> x.c, u |-> x.u, w |-> w] : x \in Cur, w \in {"cluster_by", "nop_regex", "select1"}}

\* ---- C15 on the model ----
\* Lookup / PrefixIndependent / OrderIndependent / PerConnection: what a reference yields depends on nothing but the
\* last SET/UNSET of exactly that name on that connection; NonRefUntouched; Undefined => error + stutter
StepOk(st, op, r) ==
  /\ (op.k \notin {"set", "unset", "setsel"} => r.post = st)
  /\ (op.k = "setsel" => r.obs = Obs("rows", <<ValStr(op.v)>>))
  /\ (op.k \in {"set", "unset", "setsel"} =>
        \A c \in Conns, n \in Names : (c # op.c \/ n # op.n) => r.post.vars[c][n] = st.vars[c][n])
  /\ (op.k = "sel" => IF st.vars[op.c][op.n] = UNSET THEN r.obs = Undef(op.n)
                      ELSE r.obs = Obs("rows", <<ValStr(st.vars[op.c][op.n])>>))
  /\ (op.k = "mul" /\ st.vars[op.c][op.n] # UNSET => r.obs.vals = <<Mul2(st.vars[op.c][op.n])>>)
  /\ (op.k \in {"lit", "lit5", "bind"} => r.obs.res = "rows")
  /\ (op.k = "other" => r.obs.res = "ok")
=============================================================================
