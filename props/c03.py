"""C03 - names resolve against each connection's own current database and schema (spec: FsSession)."""
from __future__ import annotations

from harness.core import Prop

SYSTEM_DBS = {"memory", "system", "temp", "_fs_global"}
HIDDEN_SCHEMAS = {"information_schema", "pg_catalog"}


def catalog(raw):
    rows = raw.execute("select catalog_name, schema_name from information_schema.schemata").fetchall()
    dbs = sorted({c for c, _ in rows if c not in SYSTEM_DBS})
    schemas = sorted([c, s] for c, s in rows if c not in SYSTEM_DBS and s not in HIDDEN_SCHEMAS and s != "main")
    tabs = raw.execute("select database_name, schema_name, table_name from duckdb_tables()").fetchall()
    tables = sorted([d, s, t] for d, s, t in tabs if d not in SYSTEM_DBS and s not in HIDDEN_SCHEMAS and not t.startswith("_fs_"))
    return dbs, schemas, tables


def name(op) -> str:
    q = op["q"]
    return {1: "t", 2: f"{op['s']}.t", 3: f"{op['d']}.{op['s']}.t"}[q]


def classify(e) -> str:
    import snowflake.connector.errors as sferr

    if isinstance(e, sferr.ProgrammingError):
        if e.errno == 90105 and e.sqlstate == "22000":
            return "nodb"
        if e.errno == 90106 and e.sqlstate == "22000":
            return "nosc"
        if (e.errno, e.sqlstate) in ((2003, "42S02"), (2043, "02000")):
            return "missing"
        return f"perr{e.errno}"
    return "exc:" + type(e).__name__


class C03(Prop):
    id = "C03"
    noise_sample = 300
    gen_module = "FsSessionGen"
    judge_module = "FsSessionJudge"
    assumptions = [
        "2 databases x 2 schemas x 1 table name x 2 connections of one instance; auto-create flags on (C14 covers the rest)",
        "after USE DATABASE any existing schema of the new database, or none, may be current - but conn.*, CURRENT_*() and "
        "name resolution must agree; contexts of OTHER connections pointing at a dropped schema may be cleared or left dangling",
        "DROP DATABASE is not exercised here (the engine cannot parse it: judged under C07)",
    ]

    def consts(self, tier):
        return {"Db": {"D1", "D2"}, "Sc": {"S1", "S2"}, "Conn": {"c1", "c2"}}

    def model_checks(self, tier):
        c = dict(self.consts(tier), Devs=set(), Depth=30, MaxFails=99, SampleOneIn=1)
        out = [dict(name="mc_ideal", consts=c, invariants=["StepInv"], constraint="Bound", view="ViewSt")]
        for d in ("C03.usedb_keeps_reported_schema", "C03.current_functions_engine_defaults", "C03.merge_needs_current_schema"):
            out.append(dict(name="mc_" + d.split(".")[1], consts=dict(c, Devs={d}, Conn={"c1"}, Depth=6),
                            invariants=["StepInv"], constraint="Bound", view="ViewSt", devs=[d]))
        return out

    def generations(self, tier, seed):
        big = tier == "thorough"
        base = dict(self.consts(tier), Devs=set(), MaxFails=2, SampleOneIn=1)
        return [
            # one connection: every transition of the full graph
            dict(name="edges1", mode="edges", sample=None if big else 2500, consts=dict(base, Conn={"c1"}, MaxFails=99, SampleOneIn=1, Depth=12)),
            # two connections: seeded subset of the 500k transitions (thorough: a much larger subset)
            dict(name="edges2", mode="edges", sample=40000 if big else 2500, consts=dict(base, Db={"D1", "D2"}, Sc={"S1"}, MaxFails=99, SampleOneIn=1, Depth=10)),
            # bounded path cover over a tiny vocabulary (repeated statements with USE / DROP in between)
            dict(name="paths", mode="paths", sample=None if big else 2500,
                 consts=dict(base, Db={"D1"}, Sc={"S1"}, Conn={"c1"}, MaxFails=1, SampleOneIn=1, Depth=6 if big else 5)),
            # many repeats of the same few statements on one connection (statement caches, stale context)
            dict(name="walks_small", mode="walks", depth=14, num=3000 if big else 600, seed_offset=4,
                 consts=dict(base, Db={"D1", "D2"}, Sc={"S1"}, Conn={"c1"}, MaxFails=2, SampleOneIn=1, Depth=14)),
            dict(name="walks", mode="walks", depth=12, num=4000 if big else 700, consts=dict(base, Depth=12)),
        ] + ([dict(name="walks_long", mode="walks", depth=30, num=1500, seed_offset=9, consts=dict(base, MaxFails=4, SampleOneIn=1, Depth=30))] if big else [])

    def nontrivial(self, ops):
        return sum(1 for o in ops if o["k"] in ("usedb", "usesc", "dropsc")) >= 1 and any(o["k"] in ("probe", "ins", "createt") for o in ops)

    def drive(self, ops, rng):
        import fakesnow

        fs = fakesnow.instance.FakeSnow()
        raw = fs.duck_conn.cursor()
        conns, longcur = {}, {}
        ev = []
        step = 0

        def ctx():
            out = {}
            for c in ("c1", "c2"):
                if c not in conns:
                    out[c] = ["-", "-", "-", "-"]
                    continue
                try:
                    cd, cs = conns[c].cursor().execute("select current_database(), current_schema()").fetchall()[0]
                except Exception as e:
                    cd = cs = "exc:" + type(e).__name__
                out[c] = [conns[c].database or "none", conns[c].schema or "none", cd or "none", cs or "none"]
            return out

        try:
            for op in ops:
                step += 1
                k, c = op["k"], op["c"]
                res, hit = "ok", []
                before = catalog(raw)[2]
                try:
                    if k == "connect":
                        conns[c] = fs.connect(database=None if op["d"] == "none" else op["d"].lower(),
                                              schema=None if op["s"] == "none" else op["s"].lower())
                        longcur[c] = conns[c].cursor()
                    else:
                        cur = longcur[c] if step % 2 else conns[c].cursor()
                        if k == "createdb":
                            cur.execute(f"create database {op['d']}")
                        elif k == "usedb":
                            cur.execute(f"use database {op['d']}")
                        elif k in ("createsc", "dropsc", "usesc"):
                            n = op["s"] if op["q"] == 2 else f"{op['d']}.{op['s']}"
                            ine = "if not exists " if op.get("form") == "ine" else ""
                            cur.execute({"createsc": "create schema " + ine, "dropsc": "drop schema ", "usesc": "use schema "}[k] + n)
                        elif k == "createt":
                            form = op.get("form", "plain")
                            cur.execute(f"create {'transient ' if form == 'transient' else ''}table {'if not exists ' if form == 'ine' else ''}{name(op)} (m varchar)")
                            new = [t for t in catalog(raw)[2] if t not in before]
                            for d, s, t in new:  # tag the physical table with its own name
                                raw.execute(f'insert into "{d}"."{s}"."{t}" values (\'{d}|{s}|{t}\')')
                        elif k == "dropt":
                            cur.execute(f"drop table {'if exists ' if op.get('form') == 'ie' else ''}{name(op)}")
                        elif k == "probe":
                            rows = cur.execute(f"select m from {name(op)}").fetchall()
                            if len(rows) == 1 and isinstance(rows[0][0], str) and rows[0][0].count("|") == 2:
                                res, hit = "hit", rows[0][0].split("|")
                            else:
                                res = "badrows"
                        elif k == "ins":
                            if op.get("how") == "merge":
                                cur.execute(f"merge into {name(op)} using (select 'ins' as m) s on t.m = s.m when not matched then insert (m) values (s.m)")
                            else:
                                cur.execute(f"insert into {name(op)} values ('ins')")
                            got = []
                            for d, s, t in catalog(raw)[2]:
                                n = raw.execute(f'select count(*) from "{d}"."{s}"."{t}" where m = \'ins\'').fetchall()[0][0]
                                if n:
                                    got.append([d, s, t])
                                    raw.execute(f'delete from "{d}"."{s}"."{t}" where m = \'ins\'')
                            res, hit = ("hit", got[0]) if len(got) == 1 else ("badins", [])
                        else:
                            raise ValueError(k)
                except Exception as e:
                    res = classify(e)
                dbs, schemas, tables = catalog(raw)
                ev.append({"op": op, "obs": {"res": res, "hit": hit, "ctx": ctx(), "dbs": dbs, "schemas": schemas, "tables": tables}})
        finally:
            fs.duck_conn.close()
        return ev


PROP = C03
