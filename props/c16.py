"""C16 - execute_string equals one-by-one execution; nop_regexes only no-op matches (spec: FsScript)."""
from __future__ import annotations

from harness.core import Prop

PL = ["plain", "semi", "dash", "block", "quote", "bslash", "uni", "dollar", "nl", "callx", "granty"]
LIT = {"plain": "'abc'", "semi": "'a;b'", "dash": "'a--b'", "block": "'a/*b*/c'", "quote": "'it''s'", "bslash": "'a\\\\b'",
       "uni": "'é😀'", "dollar": "$$a'b;c$$", "nl": "'a\nb'", "callx": "'call x'", "granty": "'grant y'"}
VAL = {"plain": "abc", "semi": "a;b", "dash": "a--b", "block": "a/*b*/c", "quote": "it's", "bslash": "a\\b",
       "uni": "é😀", "dollar": "a'b;c", "nl": "a\nb", "callx": "call x", "granty": "grant y"}
OK_STATUS = [("Statement executed successfully.",)]
ALLNOP = {"call", "call_ws", "call_upper", "grant", "ins_callx", "ins_granty", "sel_grantz"}


def stmt_sql(it):
    k = it["k"]
    if k == "ins":
        return f"insert into t values ({LIT[it['p']]})"
    if k == "sel":
        return "select count(*) as c from t"
    if k == "fail":
        return "select * from no_such_table"
    if k == "call":
        return "call foo()"
    if k == "insvar":
        return "insert into t values ($vt_v)"
    if k == "cmton":
        return "comment on table t is 'c1'"
    if k == "cmtset":
        return "alter table t set comment = 'c2'"
    raise ValueError(k)


def render(items, rng):
    """script text: statements separated by ';', comments / empty statements / whitespace placed in between"""
    out = []
    for it in items:
        k = it["k"]
        if k == "lc":
            out.append(rng.choice(["-- insert into t values ('commented; out')\n", "-- just a remark\n", "-- insert into t values ('no')\n"]))
        elif k == "bc":
            out.append(rng.choice(["/* insert into t values ('no'); */", "/* todo */", "/* insert into t values ('no') */"])
                       + rng.choice([";", "", ""]) + rng.choice(["\n", " "]))
        elif k == "ws":
            out.append(rng.choice([" ", "\n", "  \n\t"]))
        elif k == "empty":
            out.append(rng.choice([";", " ; ", ";\n;"]))
        else:
            out.append(rng.choice(["", "  ", "\n"]) + stmt_sql(it) + rng.choice([";", " ;", ";\n", ";  "]))
    text = "".join(out)
    if items and items[-1]["k"] in ("ins", "sel", "fail", "cmton", "cmtset", "call", "insvar") and rng.random() < 0.3:
        text = text.rstrip().rstrip(";")  # the last statement may come without its semicolon
    return text


def table_bag(raw, fq):
    out = [0] * len(PL)
    for (s,) in raw.execute(f"select s from {fq}").fetchall():
        hit = [i for i, p in enumerate(PL) if VAL[p] == s]
        if not hit:
            return [-1] * len(PL)
        out[hit[0]] += 1
    return out


_FS = {}
_N = 0


class C16(Prop):
    id = "C16"
    noise_sample = 300
    gen_module = "FsScriptGen"
    judge_module = "FsScriptJudge"
    assumptions = [
        "scripts of up to MaxItems items: INSERT of a string literal of 9 payload classes ( ; -- /* */ '' \\\\ unicode $$ newline ), "
        "a count query, a failing query, line comments, block comments, empty statements; whitespace and the final semicolon vary by seed",
        "nop_regexes = ['^call', 'grant ']; matching means the pattern matches at the start of the statement (re.match), "
        "a statement with leading blanks before the matching text may go either way",
    ]

    def consts(self, tier):
        return {"MaxItems": 3, "PayloadsUsed": set(PL[:9]), "DataScripts": True, "NopUsed": ALLNOP}

    def model_checks(self, tier):
        c = {"MaxItems": 3 if tier == "thorough" else 2, "PayloadsUsed": {"plain", "semi", "dollar"}, "DataScripts": True, "NopUsed": ALLNOP, "Devs": set(), "Depth": 4,
             "MaxFails": 0, "SampleOneIn": 1}
        return [dict(name="mc_ideal", consts=c, invariants=["StepInv"], constraint="Bound", view="ViewSt", timeout=1500)]

    def generations(self, tier, seed):
        big = tier == "thorough"
        base = {"Devs": set(), "MaxFails": 0, "SampleOneIn": 1, "PayloadsUsed": set(PL[:9]), "MaxItems": 3, "DataScripts": True, "NopUsed": ALLNOP}
        return [
            # every sequence of comment statements and (no-op'd) statements: what a no-op'd statement must leave alone
            dict(name="paths_cmt", mode="paths", consts=dict(base, DataScripts=False, NopUsed={"call", "ins_callx"}, MaxItems=1, Depth=6 if big else 5)),
            dict(name="edges2", mode="edges", sample=None if big else 2500, consts=dict(base, MaxItems=2, Depth=3)),
            dict(name="edges3", mode="edges", emit="EmitSample", sample=30000 if big else 3000, seed_offset=1,
                 consts=dict(base, MaxItems=3, PayloadsUsed={"plain", "semi", "dash", "dollar", "bslash"} if big else {"semi", "dash", "dollar"}, Depth=3,
                             SampleOneIn=2 if big else 10)),
            dict(name="edges1", mode="edges", consts=dict(base, MaxItems=1, Depth=3)),
            dict(name="walks", mode="walks", depth=6, num=2000 if big else 300,
                 consts=dict(base, MaxItems=2, PayloadsUsed=set(PL[:9]) if big else {"plain", "dash", "block", "dollar"}, Depth=6)),
        ]

    def nontrivial(self, ops):
        return any(o["k"] == "script" and len(o["items"]) >= 2 for o in ops) or any(o["k"] == "nopstmt" for o in ops)

    def drive(self, ops, rng):
        import snowflake.connector.errors as sferr
        from snowflake.connector.cursor import DictCursor, SnowflakeCursor

        import fakesnow

        global _N
        _N += 1
        sc = f"S{_N}"
        fs = conn = raw = None
        fq = f"DB1.{sc}.T"
        ev = []
        for op in ops:
            k = op["k"]
            obs = {"res": "ok", "results": [], "n": -1}
            if k == "inst":
                key = "set" if op["nop"] else "empty" if op.get("empty") else "none"
                if key not in _FS:
                    _FS[key] = fakesnow.instance.FakeSnow(nop_regexes={"set": ["^call", "grant "], "empty": [], "none": None}[key])
                fs = _FS[key]
                conn = fs.connect("DB1", sc)
                conn.cursor().execute("set vt_v = 'abc'")
                raw = fs.duck_conn.cursor()
                raw.execute(f"create table {fq} (s varchar)")
            elif k == "script":
                cc = DictCursor if op["cc"] == "dict" else SnowflakeCursor

                def result(it, cur):
                    rows = cur.fetchall()
                    v = list(rows[0].values())[0] if op["cc"] == "dict" else rows[0][0]
                    if it["k"] in ("cmton", "cmtset", "call"):
                        return -1 if len(rows) == 1 and isinstance(v, str) else -8
                    return int(v)

                stmts = [it for it in op["items"] if it["k"] in ("ins", "sel", "fail", "cmton", "cmtset", "call", "insvar")]
                intx = bool(op.get("tx"))
                if intx:
                    conn.cursor().execute("begin")
                kw = {"remove_comments": True} if op.get("rc") else {}
                try:
                    if op["via"] == "string":
                        curs = list(conn.execute_string(render(op["items"], rng), cursor_class=cc, **kw))
                        obs["n"] = len(curs)
                        obs["results"] = [result(it, c) for it, c in zip(stmts, curs)] if len(curs) == len(stmts) else [-7]
                    else:
                        for it in stmts:
                            cur = conn.cursor(cc)
                            cur.execute(stmt_sql(it))
                            obs["results"].append(result(it, cur))
                except sferr.ProgrammingError:
                    obs["res"] = "err"
                except Exception as e:
                    obs["res"] = "exc:" + type(e).__name__
                if intx:
                    try:
                        conn.cursor().execute("commit")
                    except Exception as e:
                        obs["res"] = "commit-failed:" + type(e).__name__
            elif k == "nopstmt":
                sql = {"call": "call foo()", "call_ws": "  call foo()", "call_upper": "CALL Foo(1)", "grant": "grant select on t to role r",
                       "ins_callx": "insert into t values ('call x')", "ins_granty": "insert into t values ('grant y')",
                       "sel_grantz": "select count(*) from t where s = 'grant z'"}[op["w"]]
                try:
                    cur = conn.cursor()
                    cur.execute(sql)
                    rows = cur.fetchall()
                    if rows == OK_STATUS:
                        obs["res"] = "status"
                    else:
                        obs["results"] = [int(rows[0][0])]
                except sferr.ProgrammingError:
                    obs["res"] = "err"
                except Exception:
                    obs["res"] = "err"      # statements the engine cannot parse: failing is all the spec asks
            obs["t"] = table_bag(raw, fq)
            try:
                cm = conn.cursor().execute(f"select comment from information_schema.tables where table_schema = '{sc}' and table_name = 'T'").fetchall()
                obs["cmt"] = (cm[0][0] or "") if len(cm) == 1 else f"rows={len(cm)}"
            except Exception as e:
                obs["cmt"] = "exc:" + type(e).__name__
            ev.append({"op": op, "obs": obs})
        if raw is not None:
            raw.execute(f"drop schema if exists DB1.{sc} cascade")
        return ev


PROP = C16
