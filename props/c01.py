"""C01 - stored values read back unchanged, in the connector's Python types (spec: FsTypes)."""
from __future__ import annotations

import datetime as dt
import decimal
import json
import math
import struct

from harness.core import Prop

D = decimal.Decimal
UTC = dt.timezone.utc
DDL = {"boolean": "boolean", "number38": "number(38,0)", "number102": "number(10,2)", "int": "int", "float": "float", "varchar": "varchar",
       "date": "date", "time": "time", "ts_ntz": "timestamp_ntz", "ts_tz": "timestamp_tz", "binary": "binary", "variant": "variant",
       "object": "object", "array": "array"}
RAWDDL = {"boolean": "boolean", "number38": "decimal(38,0)", "number102": "decimal(10,2)", "int": "bigint", "float": "double", "varchar": "varchar",
          "date": "date", "time": "time", "ts_ntz": "timestamp", "ts_tz": "timestamptz", "binary": "blob", "variant": "json", "object": "json", "array": "json"}
JS = {"flat": {"a": 1, "b": "x"}, "nested": {"a": [1, {"b": None, "c": [True, 1.5]}], "d": {"e": {"f": []}}}, "unicode": {"k": "é😀 \"q\""}}
JA = {"flat": [1, 2], "nested": [1, [2, {"a": None}], "s"], "unicode": ["é😀", "日本"]}
VALUES = {
    "boolean": {"true": [True], "false": [False]},
    "number38": {"zero": [0], "one": [1], "max38": [10**38 - 1], "min38": [-(10**38 - 1)], "int64max": [2**63 - 1, 2**63]},
    "number102": {"zero": [D("0.00")], "max_full_scale": [D("99999999.99")], "min_full_scale": [D("-99999999.99")], "smallest_step": [D("0.01"), D("-0.01")]},
    "int": {"zero": [0], "int64max": [2**63 - 1], "int64min": [-(2**63)], "neg": [-5, -1]},
    "float": {"zero": [0.0], "maxfloat": [1.7976931348623157e308], "denormal": [5e-324], "negative": [-1.5, -2.5e-10], "fraction": [0.1, 1 / 3]},
    "varchar": {"empty": [""], "plain": ["abc"], "unicode": ["é😀日本", "é́"], "quote": ["it's \"q\"", "''"], "newline": ["a\nb\tc"], "long": ["x" * 5000],
                # text that looks like a session variable reference (VT_AMOUNT is set on the connection, $5 / $nosuch are not) or like a placeholder
                "dollar": ["pay $vt_amount now", "costs $5", "$nosuch_var", "$VT_AMOUNT"], "percent": ["100%s off", "%(x)s and ? and :1", "50%"],
                # backslashes; text that mentions the instance's no-op pattern (alter\s+session) without being such a statement
                "bslash": ["C:\\temp\\new", "a\\b", "\\"], "nopword": ["please alter session now", "they alter  session"]},
    "date": {"epoch": [dt.date(1970, 1, 1)], "pre1970": [dt.date(1969, 12, 31), dt.date(1900, 2, 28)], "min": [dt.date(1, 1, 1)], "max": [dt.date(9999, 12, 31)],
             "leapday": [dt.date(2024, 2, 29)]},
    "time": {"midnight": [dt.time(0, 0, 0)], "usec": [dt.time(12, 34, 56, 123456)], "last": [dt.time(23, 59, 59, 999999)]},
    "ts_ntz": {"epoch": [dt.datetime(1970, 1, 1)], "pre1970_usec": [dt.datetime(1969, 12, 31, 23, 59, 59, 999999)], "usec": [dt.datetime(2024, 1, 2, 3, 4, 5, 123456)],
               "far": [dt.datetime(2200, 1, 1, 12, 0, 0), dt.datetime(1700, 6, 1, 0, 0, 1)]},
    "ts_tz": {"epoch": [dt.datetime(1970, 1, 1, tzinfo=UTC)], "pre1970_usec": [dt.datetime(1969, 12, 31, 23, 59, 59, 999999, tzinfo=UTC)],
              "usec": [dt.datetime(2024, 1, 2, 3, 4, 5, 123456, tzinfo=UTC)], "far": [dt.datetime(2200, 1, 1, 12, 0, 0, tzinfo=UTC)]},
    "binary": {"empty": [b""], "ascii": [b"ab"], "nulbyte": [b"a\x00b"], "highbytes": [bytes([0xFF, 0xFE, 0x80, 0x00])]},
    "variant": {k: [v] for k, v in JS.items()}, "object": {k: [v] for k, v in JS.items()}, "array": {k: [v] for k, v in JA.items()},
}
JSONT = ("variant", "object", "array")
_FS = None
_N = 0


def lit(ty, v):
    if v is None:
        return "null"
    if ty == "boolean":
        return "true" if v else "false"
    if ty in ("number38", "number102", "int"):
        return str(v)
    if ty == "float":
        return repr(v) + "::float"
    if ty == "varchar":
        return "'" + v.replace("\\", "\\\\").replace("'", "''") + "'"
    if ty == "date":
        return f"'{v.year:04d}-{v.month:02d}-{v.day:02d}'::date"
    if ty == "time":
        return f"'{v.isoformat()}'::time"
    if ty == "ts_ntz":
        return f"'{v.year:04d}-{v.month:02d}-{v.day:02d} {v.time().isoformat()}'::timestamp_ntz"
    if ty == "ts_tz":
        return f"'{v.year:04d}-{v.month:02d}-{v.day:02d} {v.time().isoformat()}+00:00'::timestamp_tz"
    if ty == "binary":
        return f"'{v.hex()}'::binary"           # Snowflake: text cast to BINARY is hex by default
    return "parse_json('" + json.dumps(v).replace("\\", "\\\\").replace("'", "''") + "')"


def pyclass(v):
    if isinstance(v, bool):
        return "bool"
    if isinstance(v, int):
        return "int"
    if isinstance(v, D):
        return "Decimal"
    if isinstance(v, float):
        return "float"
    if isinstance(v, dt.datetime):
        if v.tzinfo is None:
            return "datetime_naive"
        return "datetime_utc" if v.utcoffset() == dt.timedelta(0) else "datetime_otheroffset"
    if isinstance(v, dt.date):
        return "date"
    if isinstance(v, dt.time):
        return "time"
    if isinstance(v, (bytes, bytearray)):
        return "bytes"
    if isinstance(v, str):
        return "str"
    return type(v).__name__


def equal(ty, w, b):
    if w is None or b is None:
        return w is None and b is None
    try:
        if ty in JSONT:
            return isinstance(b, str) and json.loads(b) == w
        if ty == "float":
            return isinstance(b, float) and struct.pack("<d", b) == struct.pack("<d", w)
        if ty in ("number38", "number102", "int"):
            return isinstance(b, (int, D)) and not isinstance(b, bool) and D(b) == D(w)
        if ty == "ts_tz":
            return isinstance(b, dt.datetime) and b.tzinfo is not None and b == w
        if ty == "binary":
            return bytes(b) == w
        return type(b) is type(w) and b == w
    except Exception:
        return False


class C01(Prop):
    id = "C01"
    gen_module = "FsTypesGen"
    judge_module = "FsTypesJudge"
    assumptions = [
        "14 column types x 7 ingestion paths (SQL literal, pyformat and qmark parameters, INSERT ... SELECT, CREATE TABLE AS, CLONE, write_pandas) x "
        "the value classes of each type (edges: 38-digit and int64 extremes, full-scale decimals, largest / denormal floats, empty / unicode / "
        "long strings, 0001-01-01 .. 9999-12-31, pre-1970 microseconds, NUL / high bytes, nested JSON) x NULL placement x 1 or 3 rows",
        "inside a value class the concrete members come from a fixed edge list (one chosen by seed per case): that part is sampling",
        "read back through fetchall, fetch_pandas_all (row count) and a raw engine cursor; floats compared by bit pattern, JSON after parsing, "
        "TIMESTAMP_TZ by instant with zero offset",
    ]

    def consts(self, tier):
        return {"TypesUsed": set(DDL)}

    def model_checks(self, tier):
        c = {"TypesUsed": set(DDL), "Devs": set(), "Depth": 2, "MaxFails": 0, "SampleOneIn": 1}
        out = [dict(name="mc_ideal", consts=c, invariants=["StepInv"], constraint="Bound", view="ViewSt")]
        for d in ("C01.number_scale0_as_decimal", "C01.binary_text_is_not_hex", "C01.bytes_parameter_rejected", "C01.qmark_38_digit_int_rejected",
                  "C01.dollar_word_in_text_literal"):
            out.append(dict(name="mc_" + d.split(".")[1], consts=dict(c, Devs={d}), invariants=["StepInv"], constraint="Bound", view="ViewSt", devs=[d]))
        return out

    def generations(self, tier, seed):
        big = tier == "thorough"
        return [dict(name="cases", mode="edges", sample=None if big else 2500,
                     consts={"TypesUsed": set(DDL), "Devs": set(), "MaxFails": 0, "SampleOneIn": 1, "Depth": 2})]

    def nontrivial(self, ops):
        return ops[0]["vc"] not in ("zero", "plain", "flat", "true") or ops[0]["nulls"] != "none"

    def drive(self, ops, rng):
        import fakesnow

        global _FS, _N
        if _FS is None:
            _FS = fakesnow.instance.FakeSnow(nop_regexes=[r"alter\s+session"])
            c0 = _FS.connect("DB1", "S1").cursor()
            c0.execute("create table bystander (s varchar)")
            c0.execute("insert into bystander values ('keep')")
        ev = []
        for op in ops:
            _N += 1
            try:
                obs = self.case(op, rng, f"T{_N}")
            except Exception:
                obs = {"res": "err", "same": False, "pyc": "none", "others": "ok"}
            ev.append({"op": op, "obs": obs})
        return ev

    def case(self, op, rng, tname):
        import snowflake.connector

        from fakesnow.pandas_tools import write_pandas

        ty, path, vc, nulls, nrows = op["ty"], op["path"], op["vc"], op["nulls"], op["rows"]
        pool = VALUES[ty][vc]
        if path.startswith("write_pandas") and ty == "number38":
            # a DataFrame column reaches the real connector as parquet int64: wider integers are not valid input there
            pool = [v for v in pool if abs(v) < 2**63] or [2**63 - 1 if vc != "min38" else -(2**63) + 1]
        vals = [rng.choice(pool) for _ in range(nrows)]
        if nulls == "all":
            vals = [None] * nrows
        elif nulls == "first":
            vals[0] = None
        elif nulls == "last":
            vals[-1] = None
        fs = _FS
        raw = fs.duck_conn.cursor()
        saved = snowflake.connector.paramstyle
        if path == "qmark":
            snowflake.connector.paramstyle = "qmark"
        try:
            conn = fs.connect("DB1", "S1")
        finally:
            snowflake.connector.paramstyle = saved
        cur = conn.cursor()
        cur.execute("set vt_amount = 100")     # a session variable whose name occurs in the 'dollar' text values
        fq, stg = f"DB1.S1.{tname}", f"DB1.S1.{tname}_STG"
        target = tname
        obs = {"res": "ok", "same": False, "pyc": "none", "others": "ok"}
        try:
            cur.execute(f"create table {tname} (i int, v {DDL[ty]})")

            def rawfill(name):
                raw.execute(f"create table {name} (i bigint, v {RAWDDL[ty]})")
                for i, v in enumerate(vals):
                    if ty in ("number38", "number102", "int") and v is not None:
                        raw.execute(f"insert into {name} values ({i}, {v})")      # (the engine's client cannot bind 38-digit ints)
                    else:
                        raw.execute(f"insert into {name} values (?, ?)", [i, json.dumps(v) if ty in JSONT and v is not None else v])

            if path in ("literal", "literal_script"):
                run = cur.execute if path == "literal" else (lambda sql: list(conn.execute_string(sql)))
                if ty in JSONT:
                    run(f"insert into {tname} " + " union all ".join(f"select {i}, {lit(ty, v)}" for i, v in enumerate(vals)))
                else:
                    run(f"insert into {tname} values " + ", ".join(f"({i}, {lit(ty, v)})" for i, v in enumerate(vals)))
            elif path in ("pyformat", "qmark"):
                ph = "%s" if path == "pyformat" else "?"
                for i, v in enumerate(vals):
                    if ty in JSONT:
                        cur.execute(f"insert into {tname} select {ph}, parse_json({ph})", (i, None if v is None else json.dumps(v)))
                    else:
                        cur.execute(f"insert into {tname} values ({ph}, {ph})", (i, v))
            elif path == "insert_select":
                rawfill(stg)
                cur.execute(f"insert into {tname} select i, v from {tname}_stg")
            elif path == "ctas":
                rawfill(stg)
                target = tname + "_C"
                cur.execute(f"create table {target} as select i, v from {tname}_stg")
            elif path == "clone":
                raw.execute(f"drop table {fq}")
                rawfill(fq)
                target = tname + "_C"
                cur.execute(f"create table {target} clone {tname}")
            elif path in ("write_pandas", "write_pandas_chunked"):
                import pandas as pd

                df = pd.DataFrame({"I": list(range(len(vals))), "V": pd.Series(vals, dtype="object" if ty not in ("float",) else None)})
                kw = {} if path == "write_pandas" else {"chunk_size": rng.choice([2, 5] if len(vals) == 3 else [2, 3])}
                # the frame's index is no part of the data: rows are written in frame order whatever their labels are (a frame
                # that was filtered, sorted or re-indexed before being written); the driver's choice, recorded with the operation
                op["index"] = rng.choice(("default", "shifted", "reversed", "labels"))
                if op["index"] == "shifted":
                    df.index = range(10, 10 + len(df))
                elif op["index"] == "reversed":
                    df.index = range(len(df) - 1, -1, -1)
                elif op["index"] == "labels":
                    df.index = [f"r{k}" for k in range(len(df))]
                ok, _chunks, n, _ = write_pandas(conn, df, tname, **kw)
                if not ok or n != len(vals):
                    obs["res"] = "badcount"
            rows = cur.execute(f"select i, v from {target} order by i").fetchall()
            back = [r[1] for r in rows]
            nn = [b for b in back if b is not None]
            classes = {pyclass(b) for b in nn}
            if ty in JSONT and classes == {"str"}:
                classes = {"json_text"}
            expected_class = None
            obs["pyc"] = (classes.pop() if len(classes) == 1 else "mixed") if nn else ("none" if not vals or all(v is None for v in vals) else "none")
            same = len(back) == len(vals) and [r[0] for r in rows] == list(range(len(vals))) and all(equal(ty, w, b) for w, b in zip(vals, back))
            # the same rows through pandas and through the raw engine cursor
            try:
                cur.execute(f"select i, v from {target} order by i")
                same = same and len(cur.fetch_pandas_all()) == len(vals)
            except Exception:
                same = False
            same = same and raw.execute(f"select count(*) from DB1.S1.{target}").fetchall()[0][0] == len(vals)
            obs["same"] = bool(same)
            if not nn:   # all NULL: no cell to classify - the class is not judged
                obs["pyc"] = {"boolean": "bool", "number38": "int", "int": "int", "number102": "Decimal", "float": "float", "varchar": "str", "date": "date",
                              "time": "time", "ts_ntz": "datetime_naive", "ts_tz": "datetime_utc", "binary": "bytes"}.get(ty, "json_text")
        except Exception:
            obs = {"res": "err", "same": False, "pyc": "none", "others": "ok"}
        if raw.execute("select s from DB1.S1.BYSTANDER").fetchall() != [("keep",)]:
            obs["others"] = "changed"
        for t in (tname, tname + "_STG", tname + "_C"):
            raw.execute(f"drop table if exists DB1.S1.{t}")
        return obs


PROP = C01
