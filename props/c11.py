"""C11 - VARIANT / OBJECT / ARRAY values behave as JSON documents (spec: FsJson)."""
from __future__ import annotations

import decimal
import json

from harness.core import Prop

DOCS = [
    {"a": {"b": [10, "x", {"c": True}], "n": None, "s": 'q"t'}, "e": [], "o": {}, "num": 25, "t": " pad "},
    ["x", 1, False, None, [2, 3]],
    {"a": "Mixed Case", "b": -7},
    [],
    {},
    {"a": [{"b": "deep"}, {"b": None}]},
]
NODOC = {"k": "none", "v": 0}
_FS = None


def tag(x):
    if x is None:
        return {"k": "null", "v": 0}
    if isinstance(x, bool):
        return {"k": "bool", "v": x}
    if isinstance(x, (int, float, decimal.Decimal)):
        return {"k": "num", "v": int(x)}
    if isinstance(x, str):
        return {"k": "str", "v": x}
    if isinstance(x, list):
        return {"k": "arr", "v": [tag(e) for e in x]}
    if isinstance(x, dict):
        return {"k": "obj", "v": [[k, tag(v)] for k, v in x.items()]}
    raise TypeError(x)


def sql_str(s):
    return "'" + s.replace("\\", "\\\\").replace("'", "''") + "'"


def path_sql(base, path, syn):
    out = base
    for n, step in enumerate(path):
        kind, val = step.split(":", 1)
        if syn == "get_path":
            continue
        colon = syn == "colon" or (syn == "mixed" and n % 2 == 0)
        if kind == "i":
            out += f"[{val}]"
        elif colon:
            out += (":" if ":" not in out[len(base):] and "[" not in out[len(base):] else ".") + val if n == 0 or out[len(base):].startswith(":") and "['" not in out[len(base):] else f"['{val}']"
        else:
            out += f"['{val}']"
    if syn == "get_path":
        p = ""
        for step in path:
            kind, val = step.split(":", 1)
            p += f"[{val}]" if kind == "i" else (("." if p else "") + val)
        return f"get_path({base}, '{p}')"
    return out


def res_of(v, expect_doc):
    if v is None:
        return {"res": "null", "txt": "", "doc": NODOC, "docs": []}
    if isinstance(v, bool):
        return {"res": "bool", "txt": str(v), "doc": NODOC, "docs": []}
    if isinstance(v, (int, decimal.Decimal)):
        return {"res": "num", "txt": str(int(v)), "doc": NODOC, "docs": []}
    if isinstance(v, str) and expect_doc:
        try:
            return {"res": "doc", "txt": "", "doc": tag(json.loads(v)), "docs": []}
        except Exception:
            return {"res": "txt", "txt": v, "doc": NODOC, "docs": []}
    if isinstance(v, (list, dict)):
        return {"res": "doc", "txt": "", "doc": tag(v), "docs": []}
    return {"res": "txt", "txt": str(v), "doc": NODOC, "docs": []}


class C11(Prop):
    id = "C11"
    gen_module = "FsJsonGen"
    judge_module = "FsJsonJudge"
    assumptions = [
        "six documents up to depth 3 / width 5 (objects, arrays incl. empty, strings needing escapes and with blanks, numbers, booleans, nulls) x "
        "up to 18 paths each (present, missing, wrong kind) x access syntax (colon, brackets, mixed, GET_PATH) x cast x UPPER/LOWER/TRIM x "
        "table column vs PARSE_JSON literal; operators =, ||, +, NOT, AND, IN around cast and uncast extractions",
        "JSON values are compared after parsing (key order and whitespace are not part of the property)",
    ]

    def consts(self, tier):
        return {"PathsUsed": "all"}

    def model_checks(self, tier):
        c = {"PathsUsed": "all", "Devs": set(), "Depth": 2, "MaxFails": 0, "SampleOneIn": 1}
        out = [dict(name="mc_ideal", consts=c, invariants=["StepInv"], constraint="Bound", view="ViewSt", timeout=1500)]
        for d in ("C11.array_size_empty_is_null", "C11.bracket_only_access_broken", "C11.uncast_extraction_in_operators",
                  "C11.flatten_object_unsupported", "C11.array_construct_mixed_rejected", "C11.object_construct_all_null_rejected"):
            out.append(dict(name="mc_" + d.split(".")[1], consts=dict(c, Devs={d}), invariants=["StepInv"], constraint="Bound", view="ViewSt", devs=[d]))
        return out

    def generations(self, tier, seed):
        big = tier == "thorough"
        return [dict(name="cases", mode="edges", sample=None if big else 6000,
                     consts={"PathsUsed": "all", "Devs": set(), "MaxFails": 0, "SampleOneIn": 1, "Depth": 2})]

    def nontrivial(self, ops):
        return ops[0]["fn"] != "get" or len(ops[0]["path"]) >= 2

    def drive(self, ops, rng):
        import fakesnow

        global _FS
        if _FS is None:
            _FS = fakesnow.instance.FakeSnow()
            c0 = _FS.connect("DB1", "S1").cursor()
            c0.execute("create table j (id int, v variant)")
            for i, d in enumerate(DOCS, 1):
                c0.execute("insert into j select %s, parse_json(%s)", (i, json.dumps(d)))
            c0.execute("insert into j select 8, parse_json(%s)", (json.dumps({"p": ["x", "y"], "q": ["s"], "tags": ["  red "]}),))
            c0.execute("insert into j select 9, parse_json(%s)", (json.dumps({"2024": "yr", "1": "yr"}),))
            c0.execute("insert into j select 10, parse_json(%s)", (json.dumps(["e0", "e1", "e2"]),))
            # document 7: holds another JSON document as text (used by "reparse")
            c0.execute("insert into j select 7, parse_json(%s)", (json.dumps({"payload": json.dumps({"id": 7, "t": "it is"}), "other": 1}),))
        cur = _FS.connect("DB1", "S1").cursor()
        ev = []
        for op in ops:
            try:
                obs = self.case(op, cur)
            except Exception:
                obs = {"res": "err", "txt": "", "doc": NODOC, "docs": []}
            ev.append({"op": op, "obs": obs})
        return ev

    def case(self, op, cur):
        fn = op["fn"]
        if fn in ("get", "oper", "arraysize", "flatten", "consof"):
            j = op["doc"]
            src = op.get("src", "col")
            base = "v" if src == "col" else f"parse_json({sql_str(json.dumps(DOCS[j - 1]))})"
            frm = f" from j where id = {j}" if src == "col" else ""
            e = path_sql(base, op["path"], op.get("syn", "colon"))
        if fn == "get":
            cast = {"none": "", "varchar": "::varchar", "number": "::number", "boolean": "::boolean"}[op["cast"]]
            if op["wrap"] != "none":
                expr = f"{op['wrap']}({e})"
            else:
                expr = e + cast
            v = cur.execute(f"select {expr} as r{frm}").fetchall()[0][0]
            return res_of(v, expect_doc=op["cast"] in ("none", "varchar") and op["wrap"] == "none" and not (
                op["cast"] == "varchar" and isinstance(v, str) and not v.startswith(("{", "["))))
        if fn == "oper":
            c = op["casted"]
            o = op["o"]
            expr = {"eq": f"{e}{'::varchar' if c else ''} = 'x'", "concat": f"{e}{'::varchar' if c else ''} || 'y'",
                    "plus": f"{e}{'::number' if c else ''} + 1", "not": f"not {e}::boolean", "and": f"{e}::boolean and 1 = 1",
                    "in": f"{e}::number in (25, 3)", "between": f"{e}{'::number' if c else ''} between 4 and 26",
                    "bound": f"6 between {e}{'::number' if c else ''} and 30", "eqnum": f"{e}{'::number' if c else ''} = 25"}[o]
            v = cur.execute(f"select {expr} as r{frm}").fetchall()[0][0]
            return res_of(v, expect_doc=False)
        if fn == "arraysize":
            v = cur.execute(f"select array_size({e}) as r{frm}").fetchall()[0][0]
            return res_of(v, expect_doc=False)
        if fn == "flatten":
            rows = cur.execute(f"select f.value from (select * from j where id = {j}) t, lateral flatten(input => {e}) f").fetchall()
            return {"res": "docs", "txt": "", "doc": NODOC, "docs": [tag(json.loads(r[0])) if r[0] is not None else tag(None) for r in rows]}
        if fn == "objcons":
            lit = {"one": "1", "null": "null", "sx": "'x'", "true": "true", "pnn": "(1 is not null)", "iffc": "iff(1 > 0, 1, null)::int"}
            args = ", ".join(f"'{k}', {lit[v]}" for k, v in op["pairs"])
            v = cur.execute(f"select object_construct{'_keep_null' if op['keep'] else ''}({args})").fetchall()[0][0]
            return res_of(v, expect_doc=True)
        if fn == "arrcons":
            lit = {"one": "1", "two": "2", "sx": "'x'", "null": "null"}
            inner = ", ".join(lit[x] for x in op["elems"])
            v = cur.execute(f"select array_construct({inner})" if op["form"] == "function" else f"select [{inner}]").fetchall()[0][0]
            return res_of(v, expect_doc=True)
        if fn == "split":
            sep = {"comma": ",", "blank": " ", "commablank": ", ", "twoblanks": "  "}[op.get("sep", "comma")]
            v = cur.execute(f"select split({sql_str(sep.join(op['parts']))}, {sql_str(sep)})").fetchall()[0][0]
            return res_of(v, expect_doc=True)
        if fn == "consof":
            inner = f"object_construct('n', {e})" if op["cons"] == "object" else f"array_construct({e})"
            cast = {"none": "", "varchar": "::varchar", "variant": "::variant"}[op["cast"]]
            v = cur.execute(f"select {inner}{cast} as r{frm}").fetchall()[0][0]
            return res_of(v, expect_doc=True)
        if fn == "reparse":
            inner = json.dumps({"id": 7, "t": "it is"})
            outer = json.dumps({"payload": inner, "other": 1})
            base = "v" if op["src"] == "col" else f"parse_json({sql_str(outer)})"
            frm = " from j where id = 7" if op["src"] == "col" else ""
            cast = "::int" if op["key"] == "id" else "::varchar"
            v = cur.execute(f"select {op['via']}({base}:payload::varchar):{op['key']}{cast} as r{frm}").fetchall()[0][0]
            return res_of(v, expect_doc=False)
        if fn == "flat2":
            rows = cur.execute(f"select f1.value::{op['cast']} || '|' || f2.value::{op['cast']} from j, lateral flatten(input => v:p) f1, "
                               "lateral flatten(input => v:q) f2 where id = 8 order by 1").fetchall()
            return {"res": "docs", "txt": "", "doc": NODOC, "docs": [tag(r[0]) for r in rows]}
        if fn == "flattrim":
            rows = cur.execute(f"select {op['which']}(f.value) from j, lateral flatten(input => v:tags) f where id = 8").fetchall()
            return {"res": "docs", "txt": "", "doc": NODOC, "docs": [tag(r[0]) for r in rows]}
        if fn == "digitkey":
            docs = {"object": {"2024": "yr", "1": "yr"}, "array": ["e0", "e1", "e2"]}
            base = f"parse_json({sql_str(json.dumps(docs[op['on']]))})" if op["src"] == "lit" else "v"
            frm = "" if op["src"] == "lit" else f" from j where id = {9 if op['on'] == 'object' else 10}"
            v = cur.execute(f"select {base}['{op['key']}'] as r{frm}").fetchall()[0][0]
            return res_of(v, expect_doc=True)
        if fn == "tryparse":
            v = cur.execute("select try_parse_json(%s)", (json.dumps(DOCS[2]) if op["good"] else "{bad",)).fetchall()[0][0]
            return res_of(v, expect_doc=True)
        raise ValueError(fn)


PROP = C11
