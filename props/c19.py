"""C19 - concurrent sessions behave as if their statements ran one at a time (spec: FsConc).

TLC (1) explores every interleaving of the engine calls of two sessions on the as-built step decomposition and
(2) enumerates schedules with at most two preemptions; those are replayed with real threads under the deterministic
scheduler (hand-over exactly at engine-call boundaries through the engine proxy) and the outcome is judged against the
serial outcome.  The thorough tier adds free-running 16-thread runs (exploration)."""
from __future__ import annotations

import threading

from harness import engine, sched, tlc
from harness.core import Prop

META1 = "select comment from information_schema.tables where table_schema = 'S0' and table_name = 'TA'"
META2 = "select character_maximum_length from information_schema.columns where table_schema = 'S0' and table_name = 'TA' and column_name = 'A'"


def script(name, who):
    return {
        "none": [], "ins": [f"insert into d0.s0.shared values ({who})"],
        "ctmeta": [f"create table d0.s0.t{'a' if who == 1 else 'b'} (a varchar(5)) comment = 'c1'"],
        "readmeta": [META1, META2],
        "merge": [f"merge into d0.s0.shared using (select {who}{who} as v) s on shared.v = s.v when not matched then insert (v) values (s.v)"],
        "txpk": ["begin", "insert into d0.s0.pk values (7)", "commit"],
        "mergefail": ["merge into d0.s0.shared using (select v from no_such_source) s on shared.v = s.v when not matched then insert (v) values (s.v)"],
        "nodbsel": [f"insert into d0.s0.shared values ({who})", f"select {who} * 1000 as w from d0.s0.shared where v = {who}", f"select {who} * 1000 + 1 as w"],
        "conn": [], "connother": [], "connlow": ["select 1"], "connup": ["select 1"], "readinfo": ["select count(*) from information_schema.tables where table_schema = 'S1'"], "comment": [f"comment on table d0.s0.shared is 'by{who}'"],
    }[name]


def run_pair(pair, first, p1, p2, free=False, nthreads=2):
    import fakesnow

    a, b = pair.split("|")
    fs = fakesnow.instance.FakeSnow()
    admin = fs.connect("D0", "S0")
    admin.cursor().execute("create table shared (v int)")
    admin.cursor().execute("create table pk (v int primary key)")
    sc = sched.Scheduler(first, p1, p2)
    if not free:
        # hand-over points: before every engine call, including the calls that collect a result (execute and fetch are two calls)
        engine.install(fs, before=lambda n, sql, owner: sc.yield_point(), fetch_points=True)
    errs, partial, foreign = [], [], []
    CONNECT_PAIRS = ("none|none", "conn|connother", "none|readinfo", "connlow|connup")

    barrier = threading.Barrier(nthreads) if free else None

    def open_session(name, who=0):
        if name == "nodbsel":
            return fs.connect()                 # no current database: every name is fully qualified
        if name in ("connlow", "connup"):
            if free:
                # one database and schema, spelt in four ways (they are one name: unquoted identifiers are case-insensitive)
                f = (str.lower, str.upper, str.title, str.swapcase)[who % 4]
                return fs.connect(f("Race9"), f("Land9"))
            return fs.connect("d9" if name == "connlow" else "D9", "s9" if name == "connlow" else "S9")
        if name in ("ctmeta", "readmeta"):
            return fs.connect("D0", "S0")       # metadata views read the side tables of the CURRENT database (see C09)
        return fs.connect("D1", "S2" if name == "connother" else "S1")

    # pairs that are about the statements: the sessions exist before the schedule starts, so that its preemption points count the
    # engine calls of the statements (the connect bootstrap is scheduled in the pairs that are about connecting)
    pre = {} if pair in CONNECT_PAIRS or free else {w: open_session(a if w % 2 == 1 else b, w) for w in range(1, nthreads + 1)}

    def session(who):
        name = a if who % 2 == 1 else b
        if not free:
            sc.start(who)
        try:
            if barrier is not None:
                barrier.wait(30)                # free-running: all threads leave together
            conn = pre.get(who) or open_session(name, who)
            cur = conn.cursor()
            stmts = script(name, who)
            if free and name in ("connlow", "connup"):
                # a statement that needs everything connect() sets up (the side tables of the database)
                stmts = stmts + [f"create table tc{who} (id int, name varchar(10)) comment = 'by {who}'",
                                 f"select character_maximum_length from information_schema.columns where table_name = 'TC{who}' and column_name = 'NAME'"]
            for sql in stmts:
                cur.execute(sql)
                rows = cur.fetchall()
                if name == "nodbsel" and sql.startswith("select"):
                    want = [(who * 1000 + (0 if "from" in sql else 1),)]
                    if [tuple(int(x) for x in r) for r in rows] != want:
                        foreign.append((who, rows))
                if free and name in ("connlow", "connup") and sql.startswith("select character") and rows != [(10,)]:
                    partial.append((sql[:20], rows))
                if name == "readmeta" and rows:
                    # the table is visible: its comment (first read) and its VARCHAR length (second read) must be there too
                    if (sql == META1 and rows[0][0] != "c1") or (sql == META2 and rows[0][0] != 5):
                        partial.append((sql[:20], rows[0]))
        except Exception as e:  # noqa: BLE001
            errs.append(f"{who}:{type(e).__name__}:{str(e)[:80]}")
        finally:
            if not free:
                sc.finish(who)

    ths = [threading.Thread(target=session, args=(w,), daemon=True) for w in range(1, nthreads + 1)]
    for t in ths:
        t.start()
    hang = False
    for t in ths:
        t.join(12)
        hang = hang or t.is_alive()
    raw = fs.duck_conn.cursor() if free else fs.duck_conn._real.cursor()  # noqa: SLF001
    rows = raw.execute("select (select count(*) from D0.S0.SHARED) + (select count(*) from D0.S0.PK)").fetchall()[0][0]
    vsum = raw.execute("select coalesce((select sum(v) from D0.S0.SHARED), 0) + coalesce((select sum(v) from D0.S0.PK), 0)").fetchall()[0][0]
    tabs = raw.execute("select count(*) from duckdb_tables() where database_name = 'D0' and schema_name = 'S0' and table_name not in ('SHARED', 'PK')").fetchall()[0][0]
    schemas = raw.execute("select count(*) from information_schema.schemata where catalog_name = 'D1' and schema_name not in ('main','information_schema','pg_catalog')").fetchall()[0][0]
    return {"errs": len(errs), "hang": bool(hang or sc.hang), "rows": int(rows), "tabs": int(tabs), "schemas": int(schemas), "partial": bool(partial),
            "foreign": bool(foreign), "vsum": int(vsum)}, errs


def isolated(pair, first, p1, p2, limit=60, free=False, nthreads=2):
    """one schedule in a forked child: module-level state of the implementation (locks, caches) and threads that never
    return do not leak into the next schedule; a child that does not answer in time is killed and counts as a hang"""
    import json
    import os
    import select
    import signal

    r, w = os.pipe()
    pid = os.fork()
    if pid == 0:
        code = 0
        try:
            os.close(r)
            obs, errs = run_pair(pair, first, p1, p2, free=free, nthreads=nthreads)
            obs["messages"] = errs[:3]
            os.write(w, json.dumps(obs).encode())
        except BaseException:  # noqa: BLE001
            code = 1
        finally:
            os._exit(code)
    os.close(w)
    buf = b""
    try:
        ready, _, _ = select.select([r], [], [], limit)
        if ready:
            while True:
                chunk = os.read(r, 65536)
                if not chunk:
                    break
                buf += chunk
    finally:
        os.close(r)
        try:
            os.kill(pid, signal.SIGKILL)
        except ProcessLookupError:
            pass
        os.waitpid(pid, 0)
    if buf:
        out = json.loads(buf.decode())
        if not free:
            out.pop("messages", None)
        return out
    return {"errs": -1, "hang": True, "rows": -1, "tabs": -1, "schemas": -1, "partial": False, "foreign": False, "vsum": -1}


class C19(Prop):
    id = "C19"
    gen_module = "FsConcGen"
    judge_module = "FsConcJudge"
    assumptions = [
        "two sessions, each connect (auto-creating the same or another database / schema) + one statement (INSERT, MERGE, CREATE TABLE with comment and "
        "VARCHAR length, a metadata read, COMMENT ON); all schedules with at most two preemptions at engine-call boundaries, replayed with real "
        "threads, one runnable at a time; races inside a single engine call (inside DuckDB) are reachable only by the free-running runs of the "
        "thorough tier, which are exploration",
        "the interleaving model treats one engine call as atomic and uses the as-built step decomposition read from the engine-call log",
    ]

    def consts(self, tier):
        return {"MaxP": 20, "IfNotExists": True, "AtomicMeta": True, "Work1": "connect", "Work2": "connect"}

    def model_checks(self, tier):
        base = {"Devs": set(), "Depth": 2, "MaxFails": 0, "SampleOneIn": 1, "MaxP": 2}
        inter = dict(init="IInit", next="INext", view=None, constraint=None)
        out = []
        # the design after the fix: every interleaving of two connects, and of create-with-metadata vs a reader (AtomicMeta: the ideal)
        out.append(dict(name="mc_connect_connect", consts=dict(base, IfNotExists=True, AtomicMeta=True, Work1="connect", Work2="connect"),
                        invariants=["NoError", "NoHalfDone", "Serializable"], **inter))
        out.append(dict(name="mc_ctmeta_reader_ideal", consts=dict(base, IfNotExists=True, AtomicMeta=True, Work1="ctmeta", Work2="readmeta"),
                        invariants=["NoError", "NoHalfDone", "Serializable"], **inter))
        # the tree before the fix and the recorded deviation MUST violate the property on the model
        out.append(dict(name="mc_connect_race_before_fix", consts=dict(base, IfNotExists=False, AtomicMeta=True, Work1="connect", Work2="connect"),
                        invariants=["NoError"], devs=["(fixed) check-then-create in connect"], **inter))
        out.append(dict(name="mc_ctmeta_reader_asbuilt", consts=dict(base, IfNotExists=True, AtomicMeta=False, Work1="ctmeta", Work2="readmeta"),
                        invariants=["NoHalfDone"], devs=["C19.create_table_metadata_seen_half_done"], **inter))
        out.append(dict(name="mc_schedules", consts=dict(base, IfNotExists=True, AtomicMeta=True, Work1="connect", Work2="connect"),
                        invariants=["StepInv"], constraint="Bound", view="ViewSt"))
        return out

    def generations(self, tier, seed):
        big = tier == "thorough"
        c = {"Devs": set(), "Depth": 2, "MaxFails": 0, "SampleOneIn": 1, "MaxP": 20 if big else 15, "IfNotExists": True, "AtomicMeta": True,
             "Work1": "connect", "Work2": "connect"}
        return [dict(name="schedules", mode="edges", sample=None if big else 1600, consts=c)]

    def nontrivial(self, ops):
        return ops[0]["p1"] > 0

    def drive(self, ops, rng):
        ev = []
        for op in ops:
            ev.append({"op": op, "obs": isolated(op["pair"], op["first"], op["p1"], op["p2"])})
        return ev

    def extra_checks(self, tier, seed, run):
        # free-running threads (no scheduler): races INSIDE an engine call or in pure Python between calls are out of the
        # deterministic schedules' reach.  Exploration: a clean run proves nothing, a failing one is a violation.
        bad = 0
        n = 0
        for rep in range(30 if tier == "thorough" else 4):
            for pair in ("ins|ins", "none|none", "merge|merge", "connlow|connup", "connlow|connup", "connlow|connup"):
                obs = isolated(pair, 1, 0, 0, limit=120, free=True, nthreads=16)
                n += 1
                want_rows = {"ins|ins": 16, "none|none": 0, "merge|merge": 16, "connlow|connup": 0}[pair]
                if obs["errs"] or obs["hang"] or obs["partial"] or obs["rows"] != want_rows:
                    bad += 1
                    run.notes.append(f"free-running {pair}: {obs}")
        run.extra_cov["free_running_16_thread_runs"] = n
        if bad:
            run.violations.append({"tid": "free-running", "verdict": {"v": "fail", "at": 1, "got": run.notes[-3:], "want": ["no error, no hang, no lost insert"]},
                                   "trace": {"tid": "free-running", "ev": [{"op": {"k": "free_running"}, "obs": {}}]}})


PROP = C19
