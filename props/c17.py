"""C17 - the HTTP server answers exactly like the in-process fake (spec: FsServer).

A real uvicorn server runs on a loopback port inside each worker process and is driven by the real snowflake connector;
every statement is also executed on a mirrored in-process connection and the two outcomes are compared."""
from __future__ import annotations

import datetime as dt
import decimal
import gzip
import json

from harness import srv, tlc
from harness.core import Prop

KINDS = {
    # results over every column type, with NULLs, pre-1970 and sub-second values
    "types_row": "select true as b, 7::int as i, 2.5::float as f, to_decimal('12.34', 10, 2) as d, 'héllo' as s, '2018-04-15'::date as dt, "
                 "'04:15:29.123456'::time as tm, '2013-04-05 01:02:03.123456+00:00'::timestamp_tz as tz, '2013-04-05 01:02:03.123456'::timestamp_ntz as ts, "
                 "'ab'::binary as bin, parse_json('{\"k\": [1, null]}') as v",
    "nulls_row": "select null::boolean as b, null::int as i, null::float as f, null::number(10,2) as d, null::varchar as s, null::date as dt, "
                 "null::time as tm, null::timestamp_tz as tz, null::timestamp_ntz as ts, null::binary as bin, null::variant as v",
    "pre1970": "select '1969-12-31 23:59:58.5'::timestamp_ntz as a, '1900-01-01 00:00:00.000001'::timestamp_ntz as b, '1969-12-31 23:59:59.999999+00:00'::timestamp_tz as c, "
               "'0001-01-01'::date as d",
    "fractions": "select '2024-01-01 00:00:00.000065'::timestamp_ntz as a, '2024-01-01 00:00:00.000123'::timestamp_ntz as b, '2024-01-01 00:00:00.999999'::timestamp_ntz as c, "
                 "'23:59:59.999999'::time as t",
    "decimals": "select 12345678.91::number(10,2) as a, -0.01::number(10,2) as b, 0.5::number(3,1) as c",
    "num38": "select 99999999999999999999999999999999999999::number(38,0) as a, -1::number(38,0) as b",
    "number_col": "select n from srvt order by n",
    "empty": "select i, s from srvt where 1 = 0",
    "table": "select i, s, ts from srvt order by i",
    "dupnames": "select 1 as a, 2 as a",
    "dupnames_types": "select 12.34::number(10,2) as amount, 1.2345::number(12,4) as amount, 'x' as amount, 7::int as amount",
    "showsc": "show terse schemas",
    "insert": "insert into srvt (i, s) values (100, 'x'), (101, null)",
    "update0": "update srvt set s = 'z' where i = -5",
    "update1": "update srvt set s = 'z' where i = 1",
    "delete0": "delete from srvt where i = -5",
    "createt": "create or replace table srvt2 (i int)",
    "dropt": "drop table if exists srvt3",
    "usesc": "use schema s1",
    "begin_commit": "begin",
    "commit": "commit",
    "rollback": "rollback",
    "setv": "set other_v = 5",
    "show": "show terse tables in schema s1",
    "describe": "describe table srvt",
    "missing": "select * from no_such_table",
    "missingcol": "select nocol from srvt",
    "dup": "create table srvt (i int)",
    "undefvar": "select $no_such_var",
    "sum": "select sum(i) as s from srvt",
    "star_shp": "select * from shp",
}
ALLK = sorted(KINDS)


def norm(v):
    if isinstance(v, (bytes, bytearray)):
        return ("bytes", bytes(v))          # the real connector hands out bytearray, the in-process fake bytes: one class here
    if isinstance(v, dt.datetime) and v.tzinfo is not None:
        return ("datetime_tz", v.astimezone(dt.timezone.utc).replace(tzinfo=None), v.utcoffset())
    if isinstance(v, float) and v != v:
        return ("float", "nan")
    return (type(v).__name__, v)


def outcome(conn, sql):
    cur = conn.cursor()
    try:
        cur.execute(sql)
        rows = [tuple(norm(x) for x in r) for r in cur.fetchall()]
        try:
            d = cur.description
            desc = None if d is None else [(m.name, m.type_code, m.precision, m.scale) for m in d]
        except Exception as e:
            desc = "exc:" + type(e).__name__
        return {"rows": rows, "desc": desc, "rowcount": cur.rowcount, "error": None}
    except Exception as e:
        errno, state, msg = getattr(e, "errno", None), getattr(e, "sqlstate", None), getattr(e, "msg", None) or str(e)
        return {"rows": None, "desc": None, "rowcount": None, "error": (type(e).__name__, errno, state, msg)}


_N = 0


class C17(Prop):
    id = "C17"
    gen_module = "FsServerGen"
    judge_module = "FsServerJudge"
    assumptions = [
        "a real uvicorn server on a loopback port, driven by the real snowflake-connector-python; every statement also runs on a mirrored "
        "in-process connection; rows (values and Python classes), description (name, type code, precision, scale), rowcount and error "
        "(class, errno, sqlstate, message) are compared",
        "normalisations: bytes == bytearray (the real connector hands out bytearray); tz-aware datetimes by instant and UTC offset",
        "login modes shared / isolated (path-backed instances are exercised under C18); up to MaxSess sessions, with or without a schema in the login; 30 statement kinds",
        "all 10^6 microsecond fractions x 4 epochs go through the Arrow struct encoder against the closed form epoch = floor(us / 1e6), "
        "fraction = (us mod 1e6) * 1000; thorough also pushes a stride of them through HTTP",
    ]

    def consts(self, tier):
        return {"Db": {"D1", "D2"}, "Names": {"A", "B"}, "MaxSess": 3, "KindsUsed": set(ALLK),
                "OpKinds": {"login", "create", "see", "setvar", "getvar", "stmt", "badtoken", "reshape"}}

    def model_checks(self, tier):
        c = dict(self.consts(tier), Devs=set(), Depth=7, MaxFails=0, SampleOneIn=1, KindsUsed={"table", "num38", "sum"})
        out = [dict(name="mc_ideal", consts=c, invariants=["StepInv"], constraint="Bound", view="ViewSt")]
        for d in ("C17.scale0_number_int_vs_decimal", "C17.hugeint_result_http_500"):
            out.append(dict(name="mc_" + d.split(".")[1], consts=dict(c, Devs={d}, Depth=3, MaxSess=1), invariants=["StepInv"], constraint="Bound",
                            view="ViewSt", devs=[d]))
        return out

    def generations(self, tier, seed):
        big = tier == "thorough"
        base = dict(self.consts(tier), Devs=set(), MaxFails=0, SampleOneIn=1)
        return [
            # every statement kind on a fresh session, in both login modes
            dict(name="kinds", mode="edges", consts=dict(base, MaxSess=1, Names={"A"}, Db={"D1"}, Depth=3)),
            # session / visibility histories over up to three tokens
            dict(name="sessions", mode="edges", sample=3000 if big else 400, consts=dict(base, KindsUsed={"table"}, Depth=7)),
            # the same statement text repeated in one session with DDL / SET in between (server-side caches)
            dict(name="paths_shape", mode="paths", sample=None if big else 250,
                 consts=dict(base, MaxSess=1, Db={"D1"}, Names={"A"}, KindsUsed={"star_shp"}, OpKinds={"login", "stmt", "reshape", "setvar"}, Depth=6)),
            dict(name="walks", mode="walks", depth=8, num=600 if big else 80, consts=dict(base, Depth=8)),
        ]

    def nontrivial(self, ops):
        return len(ops) >= 3

    def extra_checks(self, tier, seed, run):
        import numpy as np
        import pyarrow as pa

        from fakesnow.arrow import timestamp_to_sf_struct

        us = np.arange(0, 1_000_000, dtype="int64")
        n = 0
        for base in (0, -1_000_000, 1_700_000_000_000_000, -2_000_000_000_000_000):
            for tz in (None, "UTC"):
                try:
                    st = timestamp_to_sf_struct(pa.array(us + base, type=pa.timestamp("us", tz=tz)))
                    ok = (st.field("epoch").to_numpy() == (us + base) // 1_000_000).all() and (st.field("fraction").to_numpy() == ((us + base) % 1_000_000) * 1000).all()
                except Exception as e:
                    ok = False
                    run.notes.append(f"fraction sweep raised {type(e).__name__}: {str(e)[:100]}")
                n += len(us)
                if not ok:
                    run.violations.append({"tid": f"fraction-sweep-{base}-{tz}", "verdict": {"v": "fail", "at": 1, "got": "struct encoding differs from the closed form",
                                           "want": ["epoch = floor(us / 1e6), fraction = (us mod 1e6) * 1000"]},
                                           "trace": {"tid": "fraction-sweep", "ev": [{"op": {"k": "fraction_sweep", "base": int(base), "tz": str(tz)}, "obs": {}}]}})
        run.extra_cov["timestamp_fractions_checked_against_closed_form"] = n
        if tier == "thorough":
            conn = srv.connect("isolated", "DB1", "S1")
            cur = conn.cursor()
            bad = 0
            for start in range(0, 1_000_000, 50_000):
                vals = ", ".join(f"('2024-01-01 00:00:00.{f:06d}'::timestamp_ntz)" for f in range(start + 7, start + 50_000, 997))
                rows = cur.execute(f"select column1 from (values {vals})").fetchall()
                want = [dt.datetime(2024, 1, 1, 0, 0, 0, f) for f in range(start + 7, start + 50_000, 997)]
                bad += sum(1 for r, w in zip(rows, want) if r[0] != w) + abs(len(rows) - len(want))
            run.extra_cov["fractions_through_http"] = 1000
            if bad:
                run.violations.append({"tid": "fraction-http", "verdict": {"v": "fail", "at": 1, "got": f"{bad} timestamps differ over HTTP", "want": []},
                                       "trace": {"tid": "fraction-http", "ev": [{"op": {"k": "fraction_http"}, "obs": {}}]}})

    def drive(self, ops, rng):
        import requests

        import fakesnow

        global _N
        _N += 1
        tag = f"B{_N}"
        cfg = srv.start()
        mirror_shared = fakesnow.instance.FakeSnow()
        sessions = []       # (server connection, mirror connection)
        shape = {}
        intx = {}
        ev = []
        for op in ops:
            k = op["k"]
            res = "ok"
            try:
                if k == "login":
                    db = f"{tag}{op['db']}"
                    has_sch = op.get("sch", True)
                    sc = srv.connect(op["mode"], db, "S1" if has_sch else None)
                    mi_fs = mirror_shared if op["mode"] == "shared" else fakesnow.instance.FakeSnow()
                    mi = mi_fs.connect(db, "S1") if has_sch else mi_fs.connect(db)
                    for c in ((sc, mi) if has_sch else ()):
                        cu = c.cursor()
                        cu.execute("create table if not exists srvt (i int, s varchar, ts timestamp_ntz, n number)")
                        cu.execute("create table if not exists shp (a number(10,2))")
                        if cu.execute("select count(*) from shp").fetchall()[0][0] == 0:
                            cu.execute("insert into shp values (1.5)")
                        if cu.execute("select count(*) from srvt").fetchall()[0][0] == 0:
                            cu.execute("insert into srvt values (1, 'a', '2024-01-01 00:00:00.000065', 1), (2, null, null, null), (3, 'c', '1969-12-31 23:59:59.5', 99999999999)")
                    sessions.append((sc, mi))
                elif k in ("create", "see", "setvar", "getvar"):
                    sc, mi = sessions[op["t"] - 1]
                    sql = {"create": f"create table {op.get('name')} (i int)", "see": f"select count(*) from {op.get('name')}",
                           "setvar": "set sv = 5", "getvar": "select $sv"}[k]
                    a, b = outcome(sc, sql), outcome(mi, sql)
                    if a["error"]:
                        msg = str(a["error"][3])
                        res = "exists" if "already exists" in msg else "missing" if a["error"][1] == 2003 else "undef" if "Session variable" in msg else "err"
                    if (a["error"] is None) != (b["error"] is None):
                        res = "server-differs-from-mirror"
                elif k == "stmt":
                    sc, mi = sessions[op["t"] - 1]
                    sql = KINDS[op["kind"]]
                    if op["kind"] == "begin_commit":         # BEGIN, or COMMIT when the session is inside a transaction (nested BEGIN: see C13)
                        sql = "commit" if intx.get(op["t"]) else "begin"
                    if sql in ("begin", "commit", "rollback"):
                        intx[op["t"]] = sql == "begin"
                    a, b = outcome(sc, sql), outcome(mi, sql)
                    diff = [f for f in ("rows", "desc", "rowcount", "error") if a[f] != b[f]]
                    res = "same" if not diff else "diff:" + ",".join(diff)
                elif k == "reshape":
                    sc, mi = sessions[op["t"] - 1]
                    shape[op["t"]] = 1 - shape.get(op["t"], 0)
                    ddl = "create or replace table shp (a int, b varchar)" if shape[op["t"]] else "create or replace table shp (a number(10,2))"
                    for c in (sc, mi):
                        c.cursor().execute(ddl)
                        c.cursor().execute("insert into shp values (1, 'x')" if shape[op["t"]] else "insert into shp values (1.5)")
                elif k == "badtoken":
                    url = f"http://{cfg['host']}:{cfg['port']}/queries/v1/query-request"
                    body = gzip.compress(json.dumps({"sqlText": "create table hacked (i int)"}).encode())
                    headers = {"Content-Encoding": "gzip"} if op["w"] == "missing" else {"Content-Encoding": "gzip", "Authorization": 'Snowflake Token="not-a-token"'}
                    r = requests.post(url, data=body, headers=headers, timeout=5)
                    res = f"{r.status_code}:{r.json().get('code')}"
            except Exception as e:
                res = "exc:" + type(e).__name__
            import fakesnow.server as server

            ev.append({"op": op, "obs": {"res": res, "nsess": len(sessions)}})
        for sc, mi in sessions:
            try:
                sc.close()
            except Exception:
                pass
        return ev


PROP = C17
