"""C09 - metadata views always describe exactly the current user objects (spec: FsCatalog)."""
from __future__ import annotations

from harness.core import Prop

TYPE_SQL = {"int": "int", "num102": "number(10,2)", "num10": "number(10)", "vc": "varchar", "vc5": "varchar(5)", "vc7": "varchar(7)", "flt": "float", "bool": "boolean"}
SHAPES = {"sh1": [("a", "vc5", False), ("b", "num102", True)], "sh2": [("a", "vc", False), ("b", "int", False), ("c", "flt", False)], "sh3": [("a", "bool", False), ("b", "num10", False)]}
USER_SCHEMAS = ("S1", "S2")
_FS = None
_N = 0


def fq(db, key):
    return f"{db}.{key[0]}.{key[1]}"


class C09(Prop):
    id = "C09"
    noise_sample = 300
    gen_module = "FsCatalogGen"
    judge_module = "FsCatalogJudge"
    assumptions = [
        "one database, schemas S1 / S2, tables T / U and view V per schema; column shapes over NUMBER(38,0), NUMBER(10,2), VARCHAR, VARCHAR(5), "
        "VARCHAR(7), FLOAT, BOOLEAN with NOT NULL; DDL: CREATE [OR REPLACE] TABLE [COMMENT], CTAS, CLONE, ADD / DROP / RENAME COLUMN, RENAME TABLE, "
        "COMMENT ON / SET COMMENT, DROP, CREATE VIEW, CREATE / DROP SCHEMA",
        "views read after the steps: information_schema.tables / columns / views / databases, DESCRIBE, SHOW TABLES / OBJECTS in account / "
        "database / schema scope, SHOW SCHEMAS, SHOW PRIMARY KEYS, description of SELECT *",
        "for SHOW the user objects listed and whether anything else (internal tables, information_schema objects) is listed are judged; the "
        "default scope of an unscoped SHOW is not fixed by the property and not exercised; OBJECT / ARRAY type names are not exercised",
    ]

    def consts(self, tier):
        return {"SchemasUsed": {"S1", "S2"}, "ReadsUsed": {"ist", "obj", "show"}}

    def model_checks(self, tier):
        big = tier == "thorough"
        c = {"SchemasUsed": {"S1", "S2"} if big else {"S1"}, "ReadsUsed": {"ist", "obj", "show"}, "Devs": set(), "Depth": 5 if big else 4, "MaxFails": 0, "SampleOneIn": 1}
        out = [dict(name="mc_ideal", consts=c, invariants=["StepInv"], constraint="Bound", view="ViewSt", timeout=1700)]
        for d in ("C09.comment_read_from_stale_side_table", "C09.length_read_from_side_table", "C09.clone_loses_not_null", "C09.internal_objects_listed"):
            out.append(dict(name="mc_" + d.split(".")[1], consts=dict(c, Devs={d}, SchemasUsed={"S1"}, Depth=5), invariants=["StepInv"], constraint="Bound",
                            view="ViewSt", devs=[d], timeout=1200))
        return out

    def generations(self, tier, seed):
        big = tier == "thorough"
        base = {"Devs": set(), "MaxFails": 0, "SampleOneIn": 1, "SchemasUsed": {"S1", "S2"}, "ReadsUsed": {"ist", "obj", "show"}}
        return [
            # every view read in every catalog state reachable by up to three DDL steps in one schema
            dict(name="edges", mode="edges", emit="EmitSample", sample=30000 if big else 3500, seed_offset=1,
                 consts=dict(base, SchemasUsed={"S1"}, Depth=5, SampleOneIn=5 if big else 30)),
            # DDL histories (drop / re-create / rename chains) with reads in between
            dict(name="walks", mode="walks", depth=12, num=3000 if big else 500, consts=dict(base, Depth=12)),
            dict(name="walks_s1", mode="walks", depth=14, num=2000 if big else 400, seed_offset=3, consts=dict(base, SchemasUsed={"S1"}, ReadsUsed={"ist", "obj"}, Depth=14)),
        ]

    def nontrivial(self, ops):
        return sum(1 for o in ops if o["k"] in ("createt", "dropt", "renamet", "renamecol", "comment", "ctas", "clone")) >= 2

    def drive(self, ops, rng):
        import fakesnow

        global _FS, _N
        if _FS is None:
            _FS = fakesnow.instance.FakeSnow()
            # another database with schemas and tables of the same names: nothing of it may show up in database / schema scopes
            dc = _FS.connect("DECOY", "S1").cursor()
            for stmt in ("create table decoy.s1.t (x int)", "create table decoy.s1.u (x int)", "create schema decoy.s2", "create table decoy.s2.t (x int)",
                         "create view decoy.s1.v as select * from decoy.s1.t"):
                dc.execute(stmt)
        _N += 1
        db = f"B{_N}"
        conn = _FS.connect(db, "S1")
        self.othercur = _FS.connect("DECOY", "S1").cursor()
        self.longcur = conn.cursor()          # statements alternate between one long-lived cursor and fresh ones
        self.nstep = 0
        ev = []
        for op in ops:
            try:
                obs = self.step(op, conn, db)
            except Exception as e:
                obs = {"res": "exc:" + type(e).__name__, "v": []}
            ev.append({"op": op, "obs": obs})
        try:
            _FS.duck_conn.cursor().execute(f"detach {db}")
        except Exception:
            pass
        return ev

    def step(self, op, conn, db):
        import snowflake.connector.errors as sferr

        k = op["k"]
        self.nstep += 1
        cur = self.longcur if (self.nstep % 3 or k == "star") else conn.cursor()
        ok = {"res": "ok", "v": []}
        if k in ("begin", "commit"):
            self.longcur.execute(k)
            return ok
        if k == "nopstmt":
            cur.execute("set vt_c09 = 1" if op["w"] == "setvar" else "unset vt_c09")
            return ok
        if k == "touchdb":
            if op["form"] == "connect":
                _FS.connect(db, "S1").cursor().execute("select 1")
            else:
                cur.execute(f"create database if not exists {db}")
            return ok
        isq = "information_schema"
        if op.get("via") == "other":
            # the same view, database-qualified, read by a session whose current database is another one
            cur = self.othercur
            isq = f"{db}.information_schema"
        if k == "createt":
            cols = ", ".join(f"{n} {TYPE_SQL[t]}{' not null' if nn else ''}" for n, t, nn in SHAPES[op["sh"]])
            cmt = f" comment = '{op['cmt']}'" if op["cmt"] else ""
            cur.execute(f"create {'or replace ' if op['mode'] == 'replace' else ''}table {fq(db, op['key'])} ({cols}){cmt}")
            return ok
        if k == "ctas":
            cur.execute(f"create table {fq(db, op['key'])} as select * from {fq(db, op['src'])}")
            return ok
        if k == "clone":
            cur.execute(f"create table {fq(db, op['key'])} clone {fq(db, op['src'])}")
            return ok
        if k == "addcol":
            cur.execute(f"alter table {fq(db, op['key'])} add column c {TYPE_SQL[op['ty']]}")
            return ok
        if k == "dropcol":
            last = conn._duck_conn.execute(  # noqa: SLF001
                f"select column_name from information_schema.columns where table_catalog = '{db}' and table_schema = '{op['key'][0]}' and table_name = '{op['key'][1]}' order by ordinal_position desc limit 1").fetchall()[0][0]
            cur.execute(f"alter table {fq(db, op['key'])} drop column {last}")
            return ok
        if k == "renamecol":
            cur.execute(f"alter table {fq(db, op['key'])} rename column a to c")
            return ok
        if k == "renamet":
            cur.execute(f"alter table {fq(db, op['key'])} rename to {db}.{op['key'][0]}.{op['to']}")
            return ok
        if k == "comment":
            if op["form"] == "comment_on":
                cur.execute(f"comment on table {fq(db, op['key'])} is '{op['cmt']}'")
            else:
                cur.execute(f"alter table {fq(db, op['key'])} set comment = '{op['cmt']}'")
            return ok
        if k == "dropt":
            cur.execute(f"drop table {fq(db, op['key'])}")
            return ok
        if k == "createv":
            cur.execute(f"create view {fq(db, op['key'])} as select * from {fq(db, op['src'])}")
            return ok
        if k == "dropv":
            cur.execute(f"drop view {fq(db, op['key'])}")
            return ok
        if k == "createsc":
            cur.execute(f"create schema {db}.s2")
            return ok
        if k == "dropsc":
            cur.execute(f"drop schema {db}.s2")
            return ok
        # ---- reads
        if k == "ist":
            rows = cur.execute(f"select table_schema, table_name, table_type, comment from {isq}.tables where table_catalog = '{db}' and table_schema in ('S1', 'S2')").fetchall()
            return {"res": "ok", "v": sorted([s, n, "T" if t == "BASE TABLE" else "V", c or ""] for s, n, t, c in rows)}
        if k == "isv":
            rows = cur.execute(f"select table_schema, table_name from {isq}.views where table_catalog = '{db}'").fetchall()
            return {"res": "ok", "v": sorted([s, n] for s, n in rows if s in USER_SCHEMAS)}
        if k == "showsc":
            rows = cur.execute(f"show schemas in database {db}").fetchall()
            return {"res": "ok", "v": sorted(r[1] for r in rows if r[1] in USER_SCHEMAS)}
        if k == "isd":
            rows = cur.execute("select database_name from information_schema.databases").fetchall()
            return {"res": "ok", "v": ["D1"] if (db,) in rows else []}
        if k == "pk":
            return {"res": "ok", "v": [list(r) for r in cur.execute("show primary keys").fetchall()]}
        if k == "isc":
            s, n = op["key"]
            rows = cur.execute(f"select column_name, ordinal_position, is_nullable, data_type, character_maximum_length, numeric_precision, numeric_scale "
                               f"from {isq}.columns where table_catalog = '{db}' and table_schema = '{s}' and table_name = '{n}' order by ordinal_position").fetchall()
            return {"res": "ok", "v": [[c, int(p), nl, dt, -1 if ln is None else int(ln), -1 if pr is None else int(pr), -1 if sc is None else int(sc)] for c, p, nl, dt, ln, pr, sc in rows]}
        if k in ("desc", "star"):
            s, n = op["key"]
            kind = conn._duck_conn.execute(  # noqa: SLF001
                f"select table_type from information_schema.tables where table_catalog = '{db}' and table_schema = '{s}' and table_name = '{n}'").fetchall()
            try:
                if k == "desc":
                    rows = cur.execute(f"describe {'view' if kind and kind[0][0] == 'VIEW' else 'table'} {db}.{s}.{n}").fetchall()
                    return {"res": "ok", "v": [[r[0], r[1], r[3]] for r in rows]}
                cur.execute(f"select * from {db}.{s}.{n}")
                return {"res": "ok", "v": [[m.name, m.type_code] for m in cur.description]}
            except sferr.ProgrammingError as e:
                if e.errno in (2003, 2043):
                    return {"res": "missing", "v": []}
                raise
        if k == "show":
            unq = self.nstep % 2 == 0        # schema scope named without its database: the current database applies
            scope = {"account": "in account", "database": f"in database {db}"}.get(op["scope"], f"in schema {op['scope'] if unq else db + '.' + op['scope']}")
            rows = cur.execute(f"show terse {op['what']} {scope}").fetchall()
            mine = sorted([r[1], r[2], r[4]] for r in rows if r[3] == db and r[4] in USER_SCHEMAS)
            internals = [r for r in rows if r[4] not in USER_SCHEMAS]
            foreign = [r for r in rows if r[4] in USER_SCHEMAS and r[3] != db]
            if foreign and op["scope"] != "account":
                return {"res": "foreign", "v": mine}
            return {"res": "internals" if internals else "clean", "v": mine}
        raise ValueError(k)


PROP = C09
