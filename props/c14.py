"""C14 - connect() does what its options say in every configuration (spec: FsConnect)."""
from __future__ import annotations

import os
import shutil
import tempfile

from harness.core import Prop

SYSTEM_DBS = {"memory", "system", "temp", "_fs_global"}
SYSTEM_SCHEMAS = {"main", "information_schema", "pg_catalog"}


def spell(name: str, case: str) -> str | None:
    if name == "none":
        return None
    if case == "lower":
        return name.lower()
    if case == "upper":
        return name.upper()
    return name[0].upper() + name[1:].lower() if len(name) > 1 else name.lower()


def probe(conn) -> str:
    import snowflake.connector.errors as sferr

    try:
        conn.cursor().execute("select * from no_such_table_xyz")
        return "resolved?"
    except sferr.ProgrammingError as e:
        return {90105: "nodb", 90106: "nosc", 2003: "ctx"}.get(e.errno, f"errno{e.errno}")
    except Exception as e:
        return "exc:" + type(e).__name__


def catalog(raw):
    rows = raw.execute("select catalog_name, schema_name from information_schema.schemata").fetchall()
    dbs = sorted({c for c, _ in rows if c not in SYSTEM_DBS})
    schemas = sorted([c, s] for c, s in rows if c not in SYSTEM_DBS and s not in SYSTEM_SCHEMAS)
    return dbs, schemas


class C14(Prop):
    id = "C14"
    gen_module = "FsConnectGen"
    judge_module = "FsConnectJudge"
    assumptions = [
        "databases D_1, DX1, schemas S_1, SX1 (each a LIKE pattern of the other) (+ INFORMATION_SCHEMA, + none), names in lower/upper/Mixed case",
        "instance options: both auto-create flags x {in-memory, empty db_path, db_path holding D_1.S_1 from an earlier instance}",
        "prior state is produced by CREATE DATABASE / CREATE SCHEMA through a context-less session; up to MaxSess connects in any order",
        "'exists' means attached to the instance: a database file that create_database_on_connect=False does not attach does not count",
    ]

    def consts(self, tier):
        # the names are each other's LIKE patterns (_ matches any character): D_1 ~ DX1, S_1 ~ SX1 - existence checks must compare
        # names, not patterns
        return {"Db": {"D_1", "DX1"}, "Sc": {"S_1"}, "DiskDb": "D_1", "MaxSess": 3}

    def model_checks(self, tier):
        c = dict(self.consts(tier), Devs=set(), Depth=7, MaxFails=0, SampleOneIn=1, MaxSess=3 if tier == "thorough" else 2)
        return [
            dict(name="mc_ideal", consts=c, invariants=["StepInv"], constraint="Bound", view="ViewSt"),
            dict(name="mc_dev", consts=dict(c, Devs={"C14.create_schema_in_missing_database"}, Depth=3, MaxSess=1),
                 invariants=["StepInv"], constraint="Bound", view="ViewSt", devs=["C14.create_schema_in_missing_database"]),
        ]

    def generations(self, tier, seed):
        big = tier == "thorough"
        base = dict(self.consts(tier), Devs=set(), MaxFails=0, SampleOneIn=1)
        g = [
            # the full configuration product: every (instance options x prior state x connect arguments), one path each
            dict(name="edges", mode="edges", sample=None if big else 4000, consts=dict(base, Sc={"S_1", "SX1"}, MaxSess=1, Depth=6)),
            # connection order: every transition with up to two earlier sessions
            dict(name="edges2", mode="edges", sample=None if big else 3000, consts=dict(base, MaxSess=2, Depth=6)),
            dict(name="walks", mode="walks", depth=7, num=3000 if big else 400, consts=dict(base, MaxSess=3, Depth=7)),
        ]
        return g

    def nontrivial(self, ops):
        return any(o["k"] == "connect" for o in ops)

    def drive(self, ops, rng):
        import fakesnow

        tmp = None
        path = None
        storage = "memory"
        fs = None
        admin = None
        sessions = []
        ev = []
        try:
            for op in ops:
                k = op["k"]
                res, me, pr = "ok", ["none", "none"], "none"
                if k == "inst":
                    path = None
                    storage = op["storage"]
                    if op["storage"] != "memory":
                        tmp = tempfile.mkdtemp(prefix="fs14-")
                        path = tmp
                    if op["storage"] == "path_existing":
                        old = fakesnow.instance.FakeSnow(db_path=path)
                        c0 = old.connect("D_1", "S_1")
                        c0.cursor().execute("create table keep (i int, s varchar(9)) comment = 'kc'")
                        c0.cursor().execute("insert into keep values (1, 'x')")
                        old.duck_conn.close()
                    fs = fakesnow.instance.FakeSnow(create_database_on_connect=op["cd"], create_schema_on_connect=op["cs"], db_path=path)
                    admin = fs.connect()
                elif k == "mkdb":
                    admin.cursor().execute(f"create database {op['db']}")
                elif k == "mksc":
                    admin.cursor().execute(f"create schema {op['db']}.{op['sc']}")
                elif k == "rmsc":
                    for c in [c for c in sessions if (c.database, c.schema) == (op["db"], op["sc"])]:
                        c.close()
                        sessions.remove(c)
                    admin.cursor().execute(f"drop schema {op['db']}.{op['sc']}")
                elif k == "connect":
                    kw = {}
                    d, s = spell(op["db"], op["dbcase"]), spell(op["sc"], op["sccase"])
                    try:
                        if rng.random() < 0.5:
                            conn = fs.connect(database=d, schema=s)
                        else:
                            if d is not None:
                                kw["database"] = d
                            if s is not None:
                                kw["schema"] = s
                            conn = fs.connect(**kw)
                    except Exception:
                        res = "exc"
                    else:
                        sessions.append(conn)
                        me = [conn.database or "none", conn.schema or "none"]
                        pr = probe(conn)
                raw = fs.duck_conn.cursor()
                dbs, schemas = catalog(raw)
                kept = "na"
                if path is not None and storage == "path_existing" and "D_1" in dbs:
                    try:
                        ac = admin.cursor()
                        rows = ac.execute("select i, s from d_1.s_1.keep").fetchall()
                        cm = ac.execute("select comment from d_1.information_schema.tables where table_catalog = 'D_1' and table_schema = 'S_1' and table_name = 'KEEP'").fetchall()
                        ds = [r[1] for r in ac.execute("describe table d_1.s_1.keep").fetchall()]
                        kept = "ok" if rows == [(1, "x")] and cm == [("kc",)] and ds == ["NUMBER(38,0)", "VARCHAR(9)"] else f"bad:{rows}:{cm}:{ds}"[:120]
                    except Exception as e:
                        kept = "bad:" + type(e).__name__
                files = sorted(f[:-3] for f in os.listdir(tmp) if f.endswith(".db")) if tmp else []
                others = [[c.database or "none", c.schema or "none", probe(c)] for c in (sessions[:-1] if k == "connect" and res == "ok" else sessions)]
                ev.append({"op": op, "obs": {"res": res, "me": me, "probe": pr, "dbs": dbs, "schemas": schemas, "files": files, "others": others, "kept": kept}})
        finally:
            if fs is not None:
                try:
                    fs.duck_conn.close()
                except Exception:
                    pass
            if tmp:
                shutil.rmtree(tmp, ignore_errors=True)
        return ev


PROP = C14
