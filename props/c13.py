"""C13 - transactions are atomic, isolated between connections, and sticky to theirs (spec: FsTxn)."""
from __future__ import annotations

from harness.core import Prop

OK_STATUS = [("Statement executed successfully.",)]
_FS = None
_N = 0


class C13(Prop):
    id = "C13"
    gen_module = "FsTxnGen"
    judge_module = "FsTxnJudge"
    assumptions = [
        "two connections of one instance, two cursors each (a long-lived one and fresh ones); one table of integers; "
        "each connection inserts / deletes its own values only (non-conflicting writes); statement-level interleavings",
        "the ideal is READ COMMITTED as the property words it; BEGIN inside a transaction may be a no-op or an error; "
        "the status row of BEGIN / COMMIT / ROLLBACK inside a transaction is not constrained (only the no-transaction case is)",
    ]

    def consts(self, tier):
        return {"Conn": {"c1", "c2"}, "CursUsed": {1, 2}, "ThUsed": {"main", "other"}, "NoiseUsed": {"withblock", "cursorctx", "setvar", "usesame"}, "CmtUsed": True}

    def model_checks(self, tier):
        big = tier == "thorough"
        c = {"Conn": {"c1", "c2"}, "CursUsed": {1}, "ThUsed": {"main"}, "NoiseUsed": {"withblock"}, "CmtUsed": True, "Devs": set(), "Depth": 16 if big else 12, "MaxFails": 99, "SampleOneIn": 1}
        return [
            dict(name="mc_ideal", consts=c, invariants=["StepInv"], constraint="Bound", view="ViewSt", timeout=1500),
            dict(name="mc_snapshot", consts=dict(c, Devs={"C13.reader_transaction_snapshot"}, Depth=6),
                 invariants=["StepInv"], constraint="Bound", view="ViewSt", devs=["C13.reader_transaction_snapshot"]),
        ]

    def generations(self, tier, seed):
        big = tier == "thorough"
        base = {"Conn": {"c1", "c2"}, "CursUsed": {1, 2}, "ThUsed": {"main"}, "NoiseUsed": {"withblock", "setvar"}, "CmtUsed": False, "Devs": set(), "MaxFails": 2, "SampleOneIn": 1}
        allnoise = {"withblock", "cursorctx", "setvar", "usesame"}
        return [
            dict(name="edges", mode="edges", sample=30000 if big else 3000, consts=dict(base, CursUsed={1}, MaxFails=99, SampleOneIn=1, Depth=9)),
            dict(name="paths", mode="paths", sample=20000 if big else 3000, consts=dict(base, CursUsed={1}, MaxFails=1, SampleOneIn=1, Depth=5)),
            # calls made from another thread than the one that opened the connection; every kind of neutral call in between
            dict(name="edges_threads", mode="edges", sample=20000 if big else 2000,
                 consts=dict(base, CursUsed={1}, ThUsed={"main", "other"}, NoiseUsed=allnoise, MaxFails=1, SampleOneIn=1, Depth=6)),
            # table comments written and read inside / outside transactions (metadata is transactional like rows)
            dict(name="edges_cmt", mode="edges", sample=20000 if big else 2000,
                 consts=dict(base, CursUsed={1}, NoiseUsed={"withblock"}, CmtUsed=True, MaxFails=0, SampleOneIn=1, Depth=7)),
            dict(name="walks", mode="walks", depth=14, num=5000 if big else 800,
                 consts=dict(base, ThUsed={"main", "other"}, NoiseUsed=allnoise, CmtUsed=True, Depth=14)),
        ] + ([dict(name="walks_long", mode="walks", depth=40, num=1500, seed_offset=2, consts=dict(base, ThUsed={"main", "other"}, NoiseUsed=allnoise, CmtUsed=True, MaxFails=5, SampleOneIn=1, Depth=40))] if big else [])

    def nontrivial(self, ops):
        return any(o["k"] == "begin" for o in ops) and len({o["c"] for o in ops}) == 2

    def drive(self, ops, rng):
        import fakesnow

        global _FS, _N
        if _FS is None:
            _FS = fakesnow.instance.FakeSnow()
        _N += 1
        sc = f"S{_N}"
        # in some behaviours the sessions connect WITHOUT a database and name everything fully (they must still be separate sessions)
        nodb = rng.random() < 0.3
        _FS.connect("DB1", sc).cursor().execute("create table t (v int)")
        conns = {c: (_FS.connect() if nodb else _FS.connect("DB1", sc)) for c in ("c1", "c2")}
        longcur = {c: conns[c].cursor() for c in conns}
        T = f"db1.{sc}.t" if nodb else "t"
        ev = []
        import threading

        def one(op):
            k, c = op["k"], op["c"]
            cur = longcur[c] if op["u"] == 1 else conns[c].cursor()
            obs = {"res": "?", "n": -1, "seen": []}
            try:
                if k == "noise":
                    w = op["w"]
                    if w == "withblock":
                        with conns[c]:
                            pass
                    elif w == "cursorctx":
                        with conns[c].cursor() as c2:
                            c2.execute("select 1")
                            c2.fetchall()
                    elif w == "setvar":
                        cur.execute("set vt_noise = 1")
                    elif nodb:
                        cur.execute("select 1")          # (a session without a database has no schema to re-select)
                    else:
                        cur.execute(f"use schema {sc}")
                    obs["res"] = "ok"
                    return obs
                if k in ("commit", "rollback") and op["api"] == "conn":
                    getattr(conns[c], k)()
                    obs["res"] = "api"
                else:
                    sql = {"begin": "begin", "commit": "commit", "rollback": "rollback", "sel": f"select v from {T}",
                           "fail": "select * from db1.no_such_schema.no_such_table", "cmt": f"comment on table db1.{sc}.t is '{op.get('v')}'",
                           "readcmt": f"select comment from db1.information_schema.tables where table_catalog = 'DB1' and table_schema = '{sc}' "
                                      "and table_name = 'T'"}.get(k)
                    if k == "ins" and op.get("how") == "merge" and not nodb:      # (MERGE needs a current schema as built: C03's finding)
                        sql = (f"merge into {T} using (select {op['v']} as v) s on t.v = s.v "
                               f"when not matched then insert (v) values (s.v)")
                    elif k == "ins":
                        sql = f"insert into {T} values ({op['v']})"
                    elif k == "del":
                        sql = f"delete from {T} where v = {op['v']}"
                    cur.execute(sql)
                    rows = cur.fetchall()
                    if k in ("begin", "commit", "rollback"):
                        obs["res"] = "ok" if rows == OK_STATUS else "none" if rows == [] else "badstatus"
                    elif k in ("ins", "del"):
                        obs["res"], obs["n"] = "count", int(rows[0][0])
                    elif k == "sel":
                        obs["res"], obs["seen"] = "rows", sorted(int(r[0]) for r in rows)
                    elif k == "cmt":
                        obs["res"] = "ok" if rows == OK_STATUS else "badstatus"
                    elif k == "readcmt":
                        obs["res"] = "cmt:" + ((rows[0][0] or "") if len(rows) == 1 else f"rows={len(rows)}")
                    else:
                        obs["res"] = "unexpected-success"
            except Exception:
                obs["res"] = "err"
            return obs

        for op in ops:
            if op.get("th", "main") == "other":
                # the same call made by another thread, strictly sequentially (start, join)
                box = []
                t = threading.Thread(target=lambda: box.append(one(op)))
                t.start()
                t.join()
                obs = box[0] if box else {"res": "threaddied", "n": -1, "seen": []}
            else:
                obs = one(op)
            ev.append({"op": op, "obs": obs})
        for c in conns.values():
            try:
                c.rollback()
            except Exception:
                pass
        _FS.duck_conn.cursor().execute(f"drop schema if exists DB1.{sc} cascade")
        return ev


PROP = C13
