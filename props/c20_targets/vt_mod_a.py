# extra patch target that bound the connector functions with from-imports before patching
from snowflake.connector import connect  # noqa: F401
from snowflake.connector.pandas_tools import write_pandas  # noqa: F401
