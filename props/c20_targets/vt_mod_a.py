# extra patch target that bound the connector functions with from-imports before patching
from snowflake.connector import connect  # noqa: F401
from snowflake.connector.pandas_tools import write_pandas  # noqa: F401
from snowflake.connector import connect as sf_connect  # noqa: E402, F401  (the same function under another name)
