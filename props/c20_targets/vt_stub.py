# stub target program for the fakesnow command line: dumps what it was given
import json
import os
import sys

import snowflake.connector

with open(os.environ["VT_STUB_OUT"], "w") as f:
    json.dump({"argv": sys.argv, "patched": type(snowflake.connector.connect).__name__ == "MagicMock"}, f)
