# a module that is not imported before patching and has no attribute called `nothing`
VALUE = 1
