# extra patch target that is NOT imported before patching and takes connect from an application module that was
from vt_mod_a import connect  # noqa: F401
