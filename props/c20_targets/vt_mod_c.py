# extra patch target whose `connect` is NOT the connector's function
from sqlite3 import connect  # noqa: F401
