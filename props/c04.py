"""C04 - DML changes exactly the right rows and reports the true affected count (spec: FsData)."""
from __future__ import annotations

from harness.core import Prop

ROWKINDS = [(None, None), (None, "x"), (0, None), (0, "x"), (1, None), (1, "x")]
ATOMS = {
    "a=0": "a = 0", "a=1": "a = 1", "a<>0": "a <> 0", "anull": "a is null", "anotnull": "a is not null",
    "b=x": "b = {x}", "b<>x": "b <> {x}", "true": "1 = 1", "false": "1 = 0", "a=null": "a = null",
    "eqnull_bx": "equal_null(b, {x})", "eqnull_an": "equal_null(a, null)",
}
SETS = {"a0": "a = 0", "a1": "a = 1", "anull": "a = null", "bx": "b = {x}", "bnull": "b = null"}
# what the abstract text value 'x' is in one behaviour: plain, text that looks like a session variable reference (LIM is set
# on the connection), text with a quote, text that looks like a placeholder
XS = ["x", "x", "$lim", "it's x", "50%s", "please call back"]
# the value as a literal expression of the statement text; "$lim" is spelled by concatenation because $<word> inside a literal is
# the recorded defect C15.ref_in_string_literal
XLIT = {"x": "'x'", "$lim": "'$' || 'lim'", "it's x": "'it''s x'", "50%s": "'50%s'", "please call back": "'please call back'"}


class Render:
    """SQL text of a statement with the abstract text value either as a literal or as bound pyformat parameters."""

    def __init__(self, xs: str, bind: bool):
        self.xs, self.bind, self.params = xs, bind, []

    def x(self) -> str:
        if self.bind:
            self.params.append(self.xs)
            return "%s"
        return XLIT[self.xs]

    def fill(self, template: str) -> str:
        while "{x}" in template:
            template = template.replace("{x}", self.x(), 1)
        return template

    def pred(self, p) -> str:
        t = p["t"]
        if t == "atom":
            return self.fill(ATOMS[p["p"]])
        if t == "not":
            return f"not ({self.pred(p['x'])})"
        return f"(({self.pred(p['x'])}) {t} ({self.pred(p['y'])}))"

    def lit(self, v) -> str:
        if v is None or v == -1 or v == "null":
            return "null"
        return self.x() if isinstance(v, str) else str(v)


def bag(raw, fq, xs="x") -> list[int]:
    rows = raw.execute(f"select a, b from {fq}").fetchall()
    out = [0] * len(ROWKINDS)
    for a, b in rows:
        try:
            out[ROWKINDS.index((None if a is None else int(a), "x" if b == xs else (None if b is None else "?" + b)))] += 1
        except ValueError:
            return [-1] * len(ROWKINDS)  # a row outside the vocabulary: no spec result can match
    return out


_FS = None
_N = 0


class C04(Prop):
    id = "C04"
    noise_sample = 300
    gen_module = "FsDataGen"
    judge_module = "FsDataJudge"
    assumptions = [
        "tables t(a NUMBER, b VARCHAR) and u, rows over a in {NULL,0,1} x b in {NULL,'x'}, at most MaxRows(+inserted) rows",
        "predicates: 10 atoms closed under NOT / AND / OR (depth 2) evaluated in three-valued logic in TLA+",
        "TRUNCATE: only its effect on the tables is judged (the property does not state its status row)",
    ]

    def consts(self, tier):
        return {"MaxRows": 2, "PredSet": "all", "InsSel": "few"}

    def model_checks(self, tier):
        big = tier == "thorough"
        c = {"MaxRows": 3 if big else 2, "PredSet": "all", "InsSel": "all" if big else "few", "Devs": set(),
             "Depth": 5 if big else 4, "MaxFails": 0, "SampleOneIn": 1}
        out = [dict(name="mc_ideal", consts=c, invariants=["StepInv"], constraint="Bound", view="ViewSt", timeout=1500)]
        for d in ("C04.rowcount_one_when_zero", "C04.comment_status_is_count"):
            out.append(dict(name="mc_" + d.split(".")[1], consts=dict(c, Devs={d}, MaxRows=1, PredSet="atoms", Depth=3, InsSel="few"),
                            invariants=["StepInv"], constraint="Bound", view="ViewSt", devs=[d]))
        return out

    def generations(self, tier, seed):
        big = tier == "thorough"
        base = {"Devs": set(), "MaxFails": 0, "SampleOneIn": 1}
        g = [
            dict(name="edges", mode="edges", sample=None if big else 4000,
                 consts=dict(base, MaxRows=2, PredSet="atoms", InsSel="few", Depth=4)),
            dict(name="edges_preds", mode="edges", sample=None if big else 3000,
                 consts=dict(base, MaxRows=1, PredSet="all", InsSel="few", Depth=3)),
            dict(name="walks", mode="walks", depth=8, num=3000 if big else 400,
                 consts=dict(base, MaxRows=3, PredSet="atoms", InsSel="few", Depth=8)),
        ]
        if big:
            g.append(dict(name="walks_long", mode="walks", depth=20, num=1000, seed_offset=7,
                          consts=dict(base, MaxRows=3, PredSet="atoms", InsSel="few", Depth=20)))
            g.append(dict(name="walks_preds", mode="walks", depth=6, num=300, seed_offset=8,
                          consts=dict(base, MaxRows=3, PredSet="all", InsSel="few", Depth=6)))
        return g

    def nontrivial(self, ops):
        return sum(1 for o in ops if o["k"] in ("insv", "inss", "upd", "del", "trunc")) >= 1

    def drive(self, ops, rng):
        import fakesnow

        global _FS, _N
        if _FS is None:
            # a no-op pattern that no statement of this driver STARTS with; one of the text values mentions it
            _FS = fakesnow.instance.FakeSnow(nop_regexes=["call back"])
            _FS.connect("DB1", "S0")
        _N += 1
        sc = f"S{_N}"
        conn = _FS.connect("DB1", sc)
        raw = _FS.duck_conn.cursor()
        cur = conn.cursor()
        fq_t, fq_u = f"DB1.{sc}.T", f"DB1.{sc}.U"
        xs = rng.choice(XS)
        cur.execute("set lim = 2")
        ev = []
        for op in ops:
            k = op["k"]
            obs = {"res": "ok", "status": [], "cols": [], "rc": 0}
            try:
                if k == "setup":
                    for fq, rows in ((fq_t, op["t"]), (fq_u, op["u"])):
                        raw.execute(f"create or replace table {fq} (a bigint, b varchar)")
                        for a, b in rows:
                            raw.execute(f"insert into {fq} values (?, ?)", [None if a in (None, -1) else a, None if b in (None, "null") else xs])
                elif k == "trunc":
                    cur.execute(rng.choice(["truncate table t", "truncate t", "TRUNCATE TABLE T"]))
                elif k in ("insv", "inss", "upd", "del"):
                    how = op.get("how", "x")
                    rd = Render(xs, how == "bind")
                    lit, pred_sql = rd.lit, rd.pred
                    if k == "insv":
                        cl = op["cl"]
                        if cl == "a":
                            vals = ", ".join(f"({lit(a)})" for a, _ in op["rows"])
                            sql = f"insert into t (a) values {vals}"
                        elif cl == "ba":
                            vals = ", ".join(f"({lit(b)}, {lit(a)})" for a, b in op["rows"])
                            sql = f"insert into t (b, a) values {vals}"
                        else:
                            vals = ", ".join(f"({lit(a)}, {lit(b)})" for a, b in op["rows"])
                            sql = f"insert into t {'(a, b) ' if cl == 'ab' else ''}values {vals}"
                    elif k == "inss":
                        sql = f"insert into t select a, b from u where {pred_sql(op['p'])}"
                    elif k == "upd":
                        sql = f"update t set {rd.fill(SETS[op['s']])} where {pred_sql(op['p'])}"
                    else:
                        sql = f"delete from t where {pred_sql(op['p'])}"
                    c2 = cur
                    if how == "sn":
                        if conn.execute_string(sql, return_cursors=False):
                            raise ValueError("execute_string(return_cursors=False) returned cursors")
                        c2 = None
                    elif how == "s":
                        c2 = list(conn.execute_string(sql))[-1]
                    elif how == "bind":
                        cur.execute(sql, tuple(rd.params))
                    else:
                        cur.execute(sql)
                    if c2 is not None:
                        rows = c2.fetchall()
                        obs["status"] = [int(x) for x in rows[0]] if len(rows) == 1 else [-9]
                        obs["cols"] = [d.name for d in c2.description]
                        obs["rc"] = -1 if c2.rowcount is None else int(c2.rowcount)
                elif k == "ddl":
                    obs = self._ddl(op, conn, cur, raw, sc, rng)
                else:
                    raise ValueError(k)
            except Exception as e:
                obs = {"res": "exc:" + type(e).__name__, "status": [], "cols": [], "rc": -2}
            obs["t"] = bag(raw, fq_t, xs)
            obs["u"] = bag(raw, fq_u, xs)
            ev.append({"op": op, "obs": obs})
        raw.execute(f"drop schema if exists DB1.{sc} cascade")
        return ev

    def _ddl(self, op, conn, cur, raw, sc, rng):
        what, q, sp = op["what"], op["q"], op["sp"]
        base = {"lower": "obj", "upper": "OBJ", "quoted": '"My obj"'}[sp]
        phys = '"My obj"' if sp == "quoted" else "OBJ"
        if what in ("createschema", "dropschema"):
            name = base if q == 2 else f"db1.{base}"
            raw.execute(f"drop schema if exists DB1.{phys} cascade")
            if what == "dropschema":
                raw.execute(f"create schema DB1.{phys}")
            sql = f"{'create' if what == 'createschema' else 'drop'} schema {name}"
        else:
            target = "t" if what in ("addcolumn", "commenton", "setcomment") else base
            name = {1: target, 2: f"{sc}.{target}", 3: f"db1.{sc}.{target}"}[q]
            fq = f"DB1.{sc}.{phys}"
            if what in ("createtable", "createtable_cmt", "createview", "droptable", "dropview"):
                for stmt in (f"drop view if exists {fq}", f"drop table if exists {fq}"):
                    try:
                        raw.execute(stmt)
                    except Exception:
                        pass  # the object exists with the other kind: the other statement removes it
            if what == "droptable":
                raw.execute(f"create table {fq} (x int)")
            if what == "dropview":
                raw.execute(f"create view {fq} as select 1 as x")
            sql = {
                "createtable": f"create table {name} (x int)",
                "createtable_cmt": f"create table {name} (x int, s varchar(8)) comment = 'made here'",
                "createview": f"create view {name} as select 1 as x",
                "droptable": f"drop table {name}",
                "dropview": f"drop view {name}",
                "addcolumn": f"alter table {name} add column c{rng.randrange(10**6)} int",
                "commenton": f"comment on table {name} is 'c'",
                "setcomment": f"alter table {name} set comment = 'c'",
            }[what]
        cur.execute(sql)
        rows = cur.fetchall()
        res = str(rows[0][0]) if len(rows) == 1 and len(rows[0]) == 1 else "badshape"
        out = {"res": res, "status": [], "cols": [d.name for d in cur.description],
               "rc": -1 if cur.rowcount is None else int(cur.rowcount)}
        # leave no object behind that a later op of this behaviour could trip over
        if what in ("createschema",):
            raw.execute(f"drop schema if exists DB1.{phys} cascade")
        if what in ("addcolumn",):
            cols = [r[0] for r in raw.execute(f"select column_name from information_schema.columns where table_catalog='DB1' and table_schema='{sc}' and table_name='T'").fetchall()]
            for c in cols:
                if c not in ("a", "b", "A", "B"):
                    raw.execute(f'alter table DB1.{sc}.T drop column "{c}"')
        return out


PROP = C04
