"""C07 - failures are Snowflake errors with the right codes, and change nothing (spec: FsErrors)."""
from __future__ import annotations

from harness.core import Prop

OK_STATUS = [("Statement executed successfully.",)]


def nm(base: str, q: int) -> str:
    return {1: base, 2: f"s1.{base}", 3: f"d1.s1.{base}"}[q]


def bad_sql(cause: str, q: int) -> str:
    n, t, v = nm("nosuch", q), nm("t", q), nm("v", q)
    fq = "d1.s1.t"
    sch = "nosch" if q == 2 else "d1.nosch"
    return {
        "sel": f"select * from {n}",
        "join": f"select * from {n} j join {fq} on 1 = 1",
        "subq": f"select * from (select * from {n}) x",
        "cte": f"with x as (select * from {n}) select * from x",
        "ins": f"insert into {n} values (1)",
        "inssel": f"insert into {fq} select * from {n}",
        "upd": f"update {n} set a = 1",
        "del": f"delete from {n}",
        "droptable": f"drop table {n}",
        "alter": f"alter table {n} add column c int",
        "dropview": f"drop view {n}",
        "describe": f"describe table {n}",
        "ctas": f"create table d1.s1.newt as select * from {n}",
        "createview": f"create view d1.s1.newv as select * from {n}",
        "clone": f"create table d1.s1.newt clone {n}",
        "merge": f"merge into {n} using {t} on nosuch.a = t.a when matched then delete",
        "truncate": f"truncate table {n}",
        "nocol": f"select nocol from {t}",
        "nofunc": f"select no_such_function(a) from {t}",
        "nvalues": f"insert into {t} values (1, 2, 3)",
        "duptable": f"create table {t} (x int, b varchar(3)) comment = 'changed'",
        "dupcolumn": f"alter table {t} add column a varchar(3)",
        "dupcolumn_ie": f"alter table if exists {t} add column b varchar(3)",
        "renamecol_dup_ie": f"alter table if exists {t} rename column a to b",
        "dupview": f"create view {v} as select 1 as a",
        "selnosch": f"select * from {sch}.t",
        "createinnosch": f"create table {sch}.x (a int)",
        "dropschema": f"drop schema {sch}",
        "usesc": f"use schema {sch}",
        "dupschema": f"create schema {'s1' if q == 2 else 'd1.s1'}",
        "selnodb": "select * from nodb.s1.t",
        "createinnodb": "create schema nodb.s",
        "usedb": "use database nodb",
        "dropdb": "drop database nodb",
        "dupdb": "create database d1",
        "createinothersch": "create table d2.s1.x (a int)",
        "dropothersch": "drop schema d2.s1",
        "undefvar": "select $nope",
    }[cause]


def classify(e) -> str:
    import snowflake.connector.errors as sferr

    if isinstance(e, sferr.ProgrammingError):
        if (e.errno, e.sqlstate) in ((2003, "42S02"), (2043, "02000")):
            return "missing"
        if (e.errno, e.sqlstate) == (90105, "22000"):
            return "nodb"
        if (e.errno, e.sqlstate) == (90106, "22000"):
            return "nosc"
        if "Session variable '$" in str(e.msg) and "does not exist" in str(e.msg):
            return "undef"
        return f"perr:{e.errno}/{e.sqlstate}"
    if isinstance(e, sferr.DatabaseError) and (e.errno, e.sqlstate) == (250002, "08003"):
        return "closed"
    return "exc:" + type(e).__name__


class C07(Prop):
    id = "C07"
    noise_sample = 300
    gen_module = "FsErrorsGen"
    judge_module = "FsErrorsJudge"
    assumptions = [
        "36 ways of referring to something missing / duplicate / mis-shaped (FROM, JOIN, subquery, CTE, DML targets and sources, DDL, "
        "DESCRIBE, CTAS, CLONE, MERGE, USE, columns, functions, value counts, undefined variable) x qualification levels x "
        "{full context, no schema, no database} x {inside / outside a transaction} x {variable set / unset} x {main / fresh cursor}",
        "2003/42S02 and 2043/02000 are not distinguished (the property lists both for 'missing or duplicate')",
        "conversion and syntax errors are outside the listed causes and are not generated",
    ]

    def consts(self, tier):
        return {}

    def model_checks(self, tier):
        c = {"Devs": set(), "Depth": 12, "MaxFails": 99, "SampleOneIn": 1}
        out = [dict(name="mc_ideal", consts=c, invariants=["StepInv"], constraint="Bound", view="ViewSt")]
        for d in ("C07.drop_database_engine_exception", "C07.context_guard_first_table_only", "C07.cte_name_needs_context",
                  "C07.merge_qualified_source_parse_error", "C07.other_database_write_aborts_transaction"):
            out.append(dict(name="mc_" + d.split(".")[1], consts=dict(c, Devs={d}, Depth=5 if "aborts" in d else 3), invariants=["StepInv"],
                            constraint="Bound", view="ViewSt", devs=[d]))
        return out

    def generations(self, tier, seed):
        big = tier == "thorough"
        base = {"Devs": set(), "MaxFails": 3, "SampleOneIn": 1}
        return [
            # every (session state x transaction x variable x sqlstate) x (cause x level x cursor): all transitions
            dict(name="edges", mode="edges", sample=None if big else 4000, consts=dict(base, MaxFails=99, Depth=9)),
            # arbitrary further use after failures
            dict(name="walks", mode="walks", depth=14, num=3000 if big else 500, consts=dict(base, MaxFails=5, Depth=14)),
        ]

    def nontrivial(self, ops):
        return sum(1 for o in ops if o["k"] == "bad") >= 1 and len(ops) >= 3

    def drive(self, ops, rng):
        import fakesnow

        fs = fakesnow.instance.FakeSnow(nop_regexes=["^call vt_"])
        fs.connect("D2", "OTHER")          # a second database that has no schema S1
        admin = fs.connect("D1", "S1")
        ac = admin.cursor()
        ac.execute("create table t (a int, b varchar(7)) comment = 'c0'")
        ac.execute("create view v as select a from t")
        raw = fs.duck_conn.cursor()
        conn = cur = None
        closed = False
        ev = []

        def meta():
            try:
                cm = ac.execute("select comment from d1.information_schema.tables where table_catalog = 'D1' and table_schema = 'S1' and table_name = 'T'").fetchall()
                desc = ac.execute("describe table d1.s1.t").fetchall()
                return [str(cm[0][0]) if len(cm) == 1 else f"rows={len(cm)}", ",".join(r[0] for r in desc), ";".join(r[1] for r in desc if r[0] == "B")]
            except Exception as e:
                return ["exc:" + type(e).__name__, "", ""]

        cache = {}

        def state(fresh=True):
            # T's declared metadata is read again after every failing statement and at the end of the behaviour; in between
            # (successful DML / BEGIN / SET, none of which is DDL) the last reading is carried over
            out = state0()
            if fresh or "meta" not in cache:
                cache["meta"] = meta()
            out["meta"] = cache["meta"]
            return out

        def state0():
            objs = sorted(r[0] for r in raw.execute(
                "select table_name from information_schema.tables where table_catalog = 'D1' and table_schema = 'S1'").fetchall())
            committed = raw.execute("select count(*) from D1.S1.T").fetchall()[0][0]
            if closed:
                return {"mine": -1, "committed": committed, "objs": objs, "ctx": [conn.database or "none", conn.schema or "none"], "var": "-"}
            try:
                mine = conn.cursor().execute("select count(*) from d1.s1.t").fetchall()[0][0]
            except Exception as e:
                mine = -9
            try:
                conn.cursor().execute("select $v").fetchall()
                var = "set"
            except Exception as e:
                var = "unset" if classify(e) == "undef" else "?" + classify(e)
            return {"mine": mine, "committed": committed, "objs": objs, "ctx": [conn.database or "none", conn.schema or "none"], "var": var}

        for nop, op in enumerate(ops, 1):
            k = op["k"]
            res = "ok"
            try:
                if k == "connect":
                    conn = {"full": lambda: fs.connect("D1", "S1"), "nosc": lambda: fs.connect("D1"), "nodb": lambda: fs.connect()}[op["ctx"]]()
                    cur = conn.cursor()
                elif k == "good":
                    sql = {"ins": "insert into t (a) values (1)", "sel": "select a from t", "begin": "begin", "commit": "commit",
                           "rollback": "rollback", "setvar": "set v = 7", "unsetvar": "unset v", "describe": "", "nopcall": "call vt_proc()"}[op["w"]]
                    if op["w"] == "describe":
                        cur.describe("select a from t")
                    else:
                        cur.execute(sql)
                        cur.fetchall()
                elif k == "bad":
                    if op["cur"] == "main_describe":
                        cur.describe(bad_sql(op["cause"], op["q"]))
                    else:
                        c = cur if op["cur"] == "main" else conn.cursor()
                        c.execute(bad_sql(op["cause"], op["q"]))
                    res = "unexpected-success"
                elif k == "close":
                    conn.close()
                    closed = True
                elif k == "after":
                    w = op["w"]
                    if w == "execute":
                        cur.execute("select 1")
                    elif w == "cursor_execute":
                        conn.cursor().execute("select 1")
                    elif w == "execute_nop":
                        cur.execute("call vt_proc()")
                    elif w == "cursor_execute_nop":
                        conn.cursor().execute("call vt_proc()")
                    elif w == "commit":
                        conn.commit()
                    elif w == "rollback":
                        conn.rollback()
                    else:
                        conn.execute_string("select 1; select 2")
                    res = "unexpected-success"
            except Exception as e:
                res = classify(e)
            ss = cur.sqlstate if cur is not None else None
            obs = {"res": res, "ss": "none" if ss in (None, "n/a") else ("missing" if ss in ("42S02", "02000") else ss)}
            obs.update(state(k != "good" or nop == len(ops)) if conn is not None else {"mine": -1, "committed": 0, "objs": ["T", "V"], "ctx": ["none", "none"], "var": "-", "meta": meta()})
            ev.append({"op": op, "obs": obs})
        try:
            fs.duck_conn.close()
        except Exception:
            pass
        return ev


PROP = C07
