"""C20 - patch() and the CLI switch the fake on and off cleanly (spec: FsPatch).

Every behaviour runs in a forked child process: patch() manipulates process-global state."""
from __future__ import annotations

import json
import os
import shutil
import sys
import tempfile

from harness.core import Prop

TARGETS = os.path.join(os.path.dirname(os.path.abspath(__file__)), "c20_targets")
KIND_TARGET = {"std": [], "fromimport": "vt_mod_a.connect", "unloaded": ["vt_mod_b.write_pandas", "vt_mod_b.connect"],
               "nomodule": "no_such_module_xyz.connect", "noattr": "vt_mod_a.nothing", "notsnow": "os.getcwd",
               # a genuine connector function bound under another name; a foreign function that merely is called connect
               "alias": "vt_mod_a.sf_connect", "notsnow_named": "vt_mod_c.connect",
               "unloaded_indirect": "vt_mod_d.connect", "unloaded_noattr": "vt_mod_e.nothing"}


def _child(ops, seedtxt):
    import snowflake.connector
    import snowflake.connector.pandas_tools

    orig_connect = snowflake.connector.connect
    orig_wp = snowflake.connector.pandas_tools.write_pandas
    sys.path.insert(0, TARGETS)
    import vt_mod_a

    import fakesnow
    import fakesnow.cli

    tmp = tempfile.mkdtemp(prefix="fs20-")
    cm = None
    kind = "std"
    conns = []
    ev = []

    import vt_mod_c

    foreign_connect = vt_mod_c.connect

    def std():
        if vt_mod_c.connect is not foreign_connect:
            return "foreign-replaced"          # a function that is not the connector's was swapped out
        a = snowflake.connector.connect is orig_connect
        b = snowflake.connector.pandas_tools.write_pandas is orig_wp
        if a and b:
            return "orig"
        fa = type(snowflake.connector.connect).__name__ == "MagicMock"
        fb = type(snowflake.connector.pandas_tools.write_pandas).__name__ == "MagicMock"
        return "fake" if fa and fb else "mixed"

    def extra(k):
        if k == "std":
            return "na"
        mod = vt_mod_a if k in ("fromimport", "alias") else sys.modules.get("vt_mod_d" if k == "unloaded_indirect" else "vt_mod_b")
        if mod is None:
            return "na"
        fn = mod.sf_connect if k == "alias" else mod.connect
        if fn is orig_connect:
            return "orig"
        return "fake" if type(fn).__name__ == "MagicMock" else "other"

    def closed():
        if not conns:
            return "na"
        ok = 0
        for c in conns:
            try:
                c.cursor().execute("select 1")
            except Exception:
                ok += 1
        return "yes" if ok == len(conns) else "no"

    # every FakeSnow instance patch() makes is recorded (from outside: patch() looks the class up in its module's namespace),
    # so that "the instance of a patch() that failed while setting up is shut down" can be observed
    made = []

    class _Recorded(fakesnow.FakeSnow):
        def __init__(self, *a, **kw):
            super().__init__(*a, **kw)
            made.append(self)

    fakesnow.FakeSnow = _Recorded

    def instances_closed(since):
        for inst in made[since:]:
            try:
                inst.duck_conn.execute("select 1")
                return "no"
            except Exception:
                pass
        return "yes"

    try:
        for op in ops:
            k = op["k"]
            argv = []
            if k == "enter":
                new = fakesnow.patch(KIND_TARGET[op["kind"]])
                n0 = len(made)
                try:
                    new.__enter__()
                except BaseException:
                    obs = {"res": "raised", "std": std(), "extra": extra(kind) if cm is not None else "na",
                           "closed": "na" if cm is not None else instances_closed(n0)}
                else:
                    if cm is None:
                        cm, kind, conns = new, op["kind"], []
                        if kind == "unloaded":
                            import vt_mod_b  # noqa: F401
                        obs = {"res": "ok", "std": std(), "extra": extra(kind), "closed": "na"}
                    else:  # a nested enter that was NOT refused
                        obs = {"res": "ok-nested", "std": std(), "extra": extra(kind), "closed": "na"}
            elif k == "connect":
                try:
                    c = snowflake.connector.connect(database="DB1", schema="S1")
                    c.cursor().execute("select 1")
                    conns.append(c)
                    obs = {"res": "ok", "std": std(), "extra": extra(kind), "closed": "na"}
                except Exception as e:       # e.g. the real connector, because the implementation did not enter the block
                    obs = {"res": "exc:" + type(e).__name__, "std": std(), "extra": extra(kind), "closed": "na"}
            elif k == "exit" and cm is None:
                # the specification's path is inside a block, the implementation refused to enter it
                obs = {"res": "not-inside", "std": std(), "extra": "na", "closed": "na"}
            elif k == "exit":
                res = "ok"
                if op["mode"] == "raise":
                    try:
                        try:
                            raise ValueError("body")
                        except ValueError as e:
                            swallowed = cm.__exit__(type(e), e, e.__traceback__)
                            res = "swallowed" if swallowed else "propagated"
                    except ValueError:
                        res = "propagated"
                else:
                    cm.__exit__(None, None, None)
                cm = None
                obs = {"res": res, "std": std(), "extra": extra(kind), "closed": closed()}
            elif k == "argv":
                out = os.path.join(tmp, "stub.json")
                if os.path.exists(out):
                    os.remove(out)
                os.environ["VT_STUB_OUT"] = out
                script = os.path.join(TARGETS, "vt_stub.py")
                d = os.path.join(tmp, "dbs")
                os.makedirs(d, exist_ok=True)
                real = []
                for o in op["opts"]:
                    real += {"-d DIR": ["-d", d], "--db_path DIR": ["--db_path", d], "--db_path=DIR": [f"--db_path={d}"], "-dDIR": [f"-d{d}"]}[o]
                real += {"SCRIPT": [script], "-m MOD": ["-m", "vt_stub"], "--module MOD": ["--module", "vt_stub"],
                         "--module=MOD": ["--module=vt_stub"], "-mMOD": ["-mvt_stub"]}[op["target"]]
                real += list(op["rest"])
                saved = list(sys.argv)
                res = "ran"
                try:
                    rc = fakesnow.cli.main(real)
                    if rc != 0:
                        res = f"rc{rc}"
                except SystemExit as e:
                    res = f"exit{e.code}"
                except BaseException as e:
                    res = "exc:" + type(e).__name__
                finally:
                    sys.argv = saved
                    sys.modules.pop("vt_stub", None)
                if os.path.exists(out):
                    seen = json.load(open(out))
                    a0 = seen["argv"][0]
                    argv = ["T" if a0.endswith("vt_stub.py") or a0 == "vt_stub" else a0] + seen["argv"][1:]
                    if not seen["patched"]:
                        res = "ran-unpatched"
                obs = {"res": res, "std": std(), "extra": "na", "closed": "na"}
            else:
                raise ValueError(k)
            obs["argv"] = argv
            ev.append({"op": op, "obs": obs})
    finally:
        shutil.rmtree(tmp, ignore_errors=True)
    return ev


class C20(Prop):
    id = "C20"
    gen_module = "FsPatchGen"
    judge_module = "FsPatchJudge"
    assumptions = [
        "extra targets: none, a module that from-imported the connector functions, a module first imported while patched, "
        "a missing module, a missing attribute, a non-snowflake function; exits: normal and by an exception in the body",
        "argv built by grammar <fakesnow options in all four forms>* <script | -m/--module in all four forms> <target args>*; "
        "target args drawn from val, -x, --, -m, -d, --db_path=zzz, other.py; each argv is run through cli.main() with a stub target",
        "each behaviour runs in a forked child process (patch() changes process-global state)",
    ]

    def consts(self, tier):
        return {"MaxConns": 2, "MaxOpts": 2, "MaxRest": 3}

    def model_checks(self, tier):
        big = tier == "thorough"
        c = {"MaxConns": 2, "MaxOpts": 2, "MaxRest": 3 if big else 2, "Devs": set(), "Depth": 7, "MaxFails": 0, "SampleOneIn": 1}
        out = [dict(name="mc_ideal", consts=c, invariants=["StepInv"], constraint="Bound", view="ViewSt")]
        for d in ("C20.failed_enter_leaves_patched", "C20.unloaded_target_keeps_mock"):
            out.append(dict(name="mc_" + d.split(".")[1], consts=dict(c, Devs={d}, MaxOpts=0, MaxRest=0, Depth=4),
                            invariants=["StepInv"], constraint="Bound", view="ViewSt", devs=[d]))
        return out

    def generations(self, tier, seed):
        big = tier == "thorough"
        base = {"Devs": set(), "MaxFails": 0, "SampleOneIn": 1, "MaxConns": 2}
        return [
            # the patch state machine: every transition, and every sequence up to a bound (re-entry, nesting, failure, exits)
            dict(name="edges_patch", mode="edges", consts=dict(base, MaxOpts=0, MaxRest=0, Depth=8)),
            dict(name="paths_patch", mode="paths", sample=None if big else 1500, consts=dict(base, MaxOpts=0, MaxRest=0, MaxConns=1, Depth=6 if big else 5)),
            # the argument grammar: every argv with up to 2 options and 3 (quick: sampled) target arguments
            dict(name="edges_argv", mode="edges", sample=None if big else 1200, consts=dict(base, MaxOpts=2, MaxRest=3, Depth=2)),
            dict(name="walks", mode="walks", depth=8, num=600 if big else 150, consts=dict(base, MaxOpts=2, MaxRest=3, Depth=8)),
        ]

    def nontrivial(self, ops):
        return len(ops) >= 2 or ops[0]["k"] == "argv" and len(ops[0]["rest"]) >= 1

    def drive(self, ops, rng):
        r, w = os.pipe()
        pid = os.fork()
        if pid == 0:
            try:
                os.close(r)
                devnull = os.open(os.devnull, os.O_WRONLY)
                os.dup2(devnull, 1)
                os.dup2(devnull, 2)
                try:
                    payload = {"ev": _child(ops, "")}
                except BaseException as e:
                    import traceback

                    payload = {"error": traceback.format_exc() + repr(e)}
                with os.fdopen(w, "w") as f:
                    json.dump(payload, f)
            finally:
                os._exit(0)
        os.close(w)
        with os.fdopen(r) as f:
            data = f.read()
        os.waitpid(pid, 0)
        if not data:
            raise RuntimeError("child produced no output")
        payload = json.loads(data)
        if "error" in payload:
            raise RuntimeError(payload["error"])
        return payload["ev"]


PROP = C20
