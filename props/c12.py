"""C12 - MERGE leaves the target as Snowflake's MERGE would, with true counts (spec: FsMerge)."""
from __future__ import annotations

from harness.core import Prop

ROWKINDS = [(None, 0), (None, 1), (1, 0), (1, 1), (2, 0), (2, 1)]
_FS = None
_N = 0
BSLIT = r"'a\\tb'"          # SQL text: 'a\\tb' (the backslash doubled, as Snowflake's literal syntax requires)


def lit(v):
    return "null" if v in (None, 0) and v is not False and v != 0 or v is None else str(v)


def bag(raw, fq):
    out = [0] * len(ROWKINDS)
    for i, n in raw.execute(f"select id, n from {fq}").fetchall():
        try:
            out[ROWKINDS.index((None if i is None else int(i), None if n is None else int(n)))] += 1
        except ValueError:
            return [-1] * len(ROWKINDS)
    return out


def merge_sql(op, sc):
    form = op["form"]
    tname = f"db1.{sc}.tg" if form in ("tq", "tq_subq") else "tg"
    T, S = "tg", "src"
    using = "src"
    if form == "talias":
        tname, T = "tg t", "t"
    if form in ("subq", "tq_subq"):
        using, S = "(select * from src) as s", "s"
    elif form == "setexpr":
        # the source under a name that sorts AFTER the target's, and a SET expression that also reads the target's column of the
        # same bare name (n = tg.n * 0 + zs.n is zs.n)
        using, S = "(select * from src) as zs", "zs"
    elif form == "salias":
        using, S = "src s", "s"
    elif form == "sq":
        using = f"db1.{sc}.src"
    cond = {"none": "", "sn0": f" and {S}.n = 0", "tn0": f" and {T}.n = 0"}
    if form == "bslash":
        # an always-true conjunct whose text literal holds a backslash: BSLIT is the four characters a, backslash, t, b
        cond = {k: v + " and length(" + BSLIT + ") = 4" for k, v in cond.items()}
    setn = f"{T}.n * 0 + {S}.n" if form == "setexpr" else f"{S}.n"
    extra = f" and {T}.n = 0" if op.get("on") == "id_tn0" else ""
    parts = [f"merge into {tname} using {using} on {T}.id = {S}.id{extra}"]
    for cl in op["cl"]:
        if cl["k"] == "upd":
            parts.append(f"when matched{cond[cl['c']]} then update set n = {setn}")
        elif cl["k"] == "del":
            parts.append(f"when matched{cond[cl['c']]} then delete")
        else:
            parts.append(f"when not matched{cond[cl['c']]} then insert (id, n) values ({S}.id, {S}.n)")
    sql = " ".join(parts)
    return sql.upper().replace(BSLIT.upper(), BSLIT) if op["kw"] == "upper" else sql


class C12(Prop):
    id = "C12"
    noise_sample = 300
    gen_module = "FsMergeGen"
    judge_module = "FsMergeJudge"
    assumptions = [
        "target <= MaxT rows, source <= MaxS rows over id in {NULL,1,2} x n in {0,1}; ON t.id = s.id; clause lists of length <= MaxCl over "
        "UPDATE SET n = s.n / DELETE / INSERT with conditions none, s.n = 0, t.n = 0; only deterministic merges (as the property says)",
        "render forms: plain, qualified target, subquery source, target alias, source alias, qualified source, a SET expression reading both "
        "tables' columns of one name, a text literal with a backslash in the conditions; lower / upper case keywords",
        "atomicity under a failing sub-statement is not exercised (no failing merge is in the vocabulary)",
    ]

    def consts(self, tier):
        return {"MaxT": 3, "MaxS": 2, "MaxCl": 3, "CondsUsed": {"none", "sn0", "tn0"},
                "FormsUsed": {"plain", "tq", "subq", "tq_subq", "talias", "salias", "sq", "setexpr", "bslash"},
                "OnUsed": {"id", "id_tn0"}, "TxUsed": {"none", "rollback", "commit"}}

    def model_checks(self, tier):
        big = tier == "thorough"
        c = {"MaxT": 3 if big else 2, "MaxS": 2, "MaxCl": 2, "CondsUsed": {"none", "sn0", "tn0"}, "FormsUsed": {"plain"}, "OnUsed": {"id", "id_tn0"}, "TxUsed": {"none"},
             "Devs": set(), "Depth": 3, "MaxFails": 0, "SampleOneIn": 1}
        out = [dict(name="mc_ideal", consts=c, invariants=["StepInv"], constraint="Bound", view="ViewSt", timeout=1700)]
        for d, extra in (("C12.same_key_rows_all_hit", {}), ("C12.alias_or_qualified_source_unsupported", {"FormsUsed": {"talias"}}),
                         ("C12.helper_table_visible", {}), ("C12.null_counts_without_candidates", {}),
                         ("C12.set_expression_unsupported", {"FormsUsed": {"setexpr"}})):
            out.append(dict(name="mc_" + d.split(".")[1], consts=dict(c, Devs={d}, MaxT=2, MaxCl=1, **extra),
                            invariants=["StepInv"], constraint="Bound", view="ViewSt", devs=[d]))
        return out

    def generations(self, tier, seed):
        big = tier == "thorough"
        base = dict(self.consts(tier), Devs=set(), MaxFails=0, SampleOneIn=1)
        return [
            # (target, source, clause list) product: the transitions of depth 2 (setup; merge); TLC samples 1 in N of them
            dict(name="edges", mode="edges", emit="EmitSample", sample=60000 if big else 3000, seed_offset=1,
                 consts=dict(base, MaxT=2, MaxS=2, MaxCl=2, FormsUsed={"plain"}, TxUsed={"none"}, Depth=3, SampleOneIn=3 if big else 80)),
            dict(name="edges_cl3", mode="edges", emit="EmitSample", sample=30000 if big else 1500, seed_offset=2,
                 consts=dict(base, MaxT=2, MaxS=1, MaxCl=3, FormsUsed={"plain"}, OnUsed={"id"}, TxUsed={"none"}, Depth=3, SampleOneIn=3 if big else 30)),
            # MERGE inside BEGIN .. ROLLBACK / COMMIT
            dict(name="edges_tx", mode="edges", emit="EmitSample", sample=10000 if big else 1000, seed_offset=4,
                 consts=dict(base, MaxT=2, MaxS=1, MaxCl=2, FormsUsed={"plain", "subq"}, OnUsed={"id"}, TxUsed={"rollback", "commit"}, Depth=3, SampleOneIn=3 if big else 20)),
            dict(name="edges_forms", mode="edges", sample=20000 if big else 2000,
                 consts=dict(base, MaxT=2, MaxS=1, MaxCl=1, OnUsed={"id"}, TxUsed={"none"}, Depth=3)),
        ]

    def nontrivial(self, ops):
        return any(o["k"] == "merge" and len(o["cl"]) >= 2 for o in ops)

    def drive(self, ops, rng):
        from snowflake.connector.cursor import DictCursor

        import fakesnow

        global _FS, _N
        if _FS is None:
            _FS = fakesnow.instance.FakeSnow()
        _N += 1
        sc = f"S{_N}"
        conn = _FS.connect("DB1", sc)
        # qualified-target forms run from ANOTHER current schema that holds a decoy table of the same bare name
        conn_b = _FS.connect("DB1", sc + "B")
        raw = _FS.duck_conn.cursor()
        fq_t, fq_s = f"DB1.{sc}.TG", f"DB1.{sc}.SRC"
        fq_decoy, fq_sb = f"DB1.{sc}B.TG", f"DB1.{sc}B.SRC"
        for fq in (fq_t, fq_s, fq_decoy, fq_sb):
            raw.execute(f"create table {fq} (id bigint, n bigint)")
        raw.execute(f"insert into {fq_decoy} values (2, 1)")
        ev = []
        for op in ops:
            obs = {"res": "ok", "ins": -1, "upd": -1, "del": -1}
            try:
                if op["k"] == "setup":
                    for fq, rows in ((fq_t, op["t"]), (fq_s, op["s"]), (fq_sb, op["s"])):
                        raw.execute(f"delete from {fq}")
                        for i, n in rows:
                            raw.execute(f"insert into {fq} values ({'null' if i == 0 else i}, {n})")
                else:
                    myconn = conn_b if op["form"] in ("tq", "tq_subq") else conn
                    cur = myconn.cursor(DictCursor)
                    tx = op.get("tx", "none")
                    if tx != "none":
                        cur.execute("begin")
                    try:
                        cur.execute(merge_sql(op, sc))
                        rows = cur.fetchall()
                    finally:
                        if tx != "none":
                            myconn.cursor().execute(tx)
                    if len(rows) != 1:
                        obs["res"] = "badstatus"
                    else:
                        names = {"number of rows inserted": "ins", "number of rows updated": "upd", "number of rows deleted": "del"}
                        for key, v in rows[0].items():
                            if key in names:
                                obs[names[key]] = -2 if v is None else int(v)
                            else:
                                obs["res"] = "badstatuscol"
            except Exception:
                obs["res"] = "exc"
            helper = False
            for c in (conn, conn_b):
                try:
                    c.cursor().execute("select count(*) from merge_candidates")
                    helper = True
                except Exception:
                    pass
            obs["helper"] = helper
            if bag(raw, fq_decoy) != [0, 0, 0, 0, 0, 1] or bag(raw, fq_sb) != bag(raw, fq_s):
                obs["res"] = "bystander-changed"
            obs["t"], obs["s"] = bag(raw, fq_t), bag(raw, fq_s)
            ev.append({"op": op, "obs": obs})
        raw.execute(f"drop schema if exists DB1.{sc} cascade")
        raw.execute(f"drop schema if exists DB1.{sc}B cascade")
        return ev


PROP = C12
