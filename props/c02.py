"""C02 - unquoted identifiers fold to upper case; quoted ones are kept verbatim (spec: FsIdent).

Two parts: (1) the fold rule itself - create under one spelling, refer / report under another, for every object kind,
statement kind, reporting channel and keyword case; (2) metamorphic re-run: behaviours of other properties are executed
again with every SQL statement re-spelled (keywords and unquoted identifiers in another letter case) and must give the
identical recorded trace."""
from __future__ import annotations

import random
import re

from harness import core, tlc
from harness.core import Prop

SP = {"lower": "ab", "upper": "AB", "mixed": "Ab", "qlower": '"ab"', "qupper": '"AB"', "qmixed": '"Ab"',
      "fnlower": "identifier('ab')", "fnmixed": "identifier('Ab')"}
FOLD = {"lower": "AB", "upper": "AB", "mixed": "AB", "qupper": "AB", "qlower": "ab", "qmixed": "Ab", "fnlower": "AB", "fnmixed": "AB"}


# the letters the abstract name "ab" is written with: identifiers need not be ASCII, and the fold rule is about letters, not
# about [a-z] (the driver picks an alphabet per behaviour; what is observed is mapped back to a / b for the judge)
ALPHABETS = {"ascii": "ab", "cyrillic": "\u0436\u0438"}
_BACK = {}


def set_alphabet(name: str):
    lo = ALPHABETS[name]
    lower, upper, mixed = lo, lo.upper(), lo[0].upper() + lo[1:]
    SP.update({"lower": lower, "upper": upper, "mixed": mixed, "qlower": f'"{lower}"', "qupper": f'"{upper}"', "qmixed": f'"{mixed}"',
               "fnlower": f"identifier('{lower}')", "fnmixed": f"identifier('{mixed}')"})
    _BACK.clear()
    if name != "ascii":
        _BACK.update({ord(lo[0]): "a", ord(lo[1]): "b", ord(lo[0].upper()): "A", ord(lo[1].upper()): "B"})


def back(v):
    """observed text with the behaviour's alphabet mapped back to a / b"""
    if not _BACK:
        return v
    if isinstance(v, str):
        return v.translate(_BACK)
    if isinstance(v, list):
        return [back(x) for x in v]
    if isinstance(v, dict):
        return {k: back(x) for k, x in v.items()}
    return v


def keep(sp: str) -> str:
    """an identifier as spelled by the operation: its letter case is not touched by kwcase (IDENTIFIER('..') is a keyword + a literal)"""
    return sp if sp.startswith("identifier(") else f"«{sp}»"
_N = 0


def kwcase(sql: str, kw: str, rng) -> str:
    """change the case of everything outside quotes / string literals that is not one of OUR identifiers (those are spelled by the op)"""
    out, i, n = [], 0, len(sql)
    while i < n:
        c = sql[i]
        if c in "'\"":
            j = i + 1
            while j < n and sql[j] != c:
                j += 1
            out.append(sql[i:j + 1])
            i = j + 1
        elif c == "«":                      # «...» marks text whose case must be kept as rendered
            j = sql.index("»", i)
            out.append(sql[i + 1:j])
            i = j + 1
        else:
            j = i
            while j < n and sql[j] not in "'\"«":
                j += 1
            seg = sql[i:j]
            out.append(seg.lower() if kw == "lower" else seg.upper() if kw == "upper" else "".join(ch.upper() if rng.random() < 0.5 else ch.lower() for ch in seg))
            i = j
    return "".join(out)


class C02(Prop):
    id = "C02"
    gen_module = "FsIdentGen"
    judge_module = "FsIdentJudge"
    assumptions = [
        "spellings: lower / UPPER / Mixed, each also inside double quotes; object kinds: table, view, column, schema, result alias, session variable; "
        "statement kinds: select, insert, update, delete, describe, drop + re-create, MERGE target, join, where, order by, USE, qualification; "
        "reporting channels: status messages, description, DictCursor keys, information_schema, DESCRIBE, SHOW TABLES / OBJECTS / SCHEMAS, conn.schema",
        "'all re-spellings' is exhaustive per token class (lower / UPPER / Mixed x quoted), not over the 2^n per-letter spellings; mixed keyword case is drawn by seed",
        "metamorphic part: behaviours of C04, C13, C15, C16 and C03 are executed a second time with every statement re-spelled; traces must be identical",
    ]

    def consts(self, tier):
        return {"KindsUsed": {"table", "view", "column", "schema", "alias", "variable"}, "FindsUsed": True}

    def model_checks(self, tier):
        c = {"KindsUsed": {"table", "column", "variable"}, "FindsUsed": True, "Devs": set(), "Depth": 4, "MaxFails": 0, "SampleOneIn": 1}
        return [dict(name="mc_ideal", consts=c, invariants=["StepInv"], constraint="Bound", view="ViewSt", timeout=1200),
                dict(name="mc_create_user", consts=dict(c, Devs={"C02.user_name_not_folded"}, KindsUsed={"variable"}, Depth=2), invariants=["StepInv"],
                     constraint="Bound", view="ViewSt", devs=["C02.user_name_not_folded"])]

    def generations(self, tier, seed):
        big = tier == "thorough"
        base = {"Devs": set(), "MaxFails": 0, "SampleOneIn": 1, "FindsUsed": True}
        # every creation spelling x every reporting channel, all of them (no sampling)
        out = [dict(name="channels", mode="edges", consts=dict(base, KindsUsed={"table", "view", "column", "schema", "alias"}, FindsUsed=False, Depth=3))]
        for kind in ("table", "view", "column", "schema", "alias", "variable"):
            out.append(dict(name="pairs_" + kind, mode="edges", sample=None if big else 700, consts=dict(base, KindsUsed={kind}, Depth=4)))
        return out

    def nontrivial(self, ops):
        return any(o["k"] == "find" for o in ops) or any(o["k"] == "names" for o in ops)

    # ---- metamorphic re-run: behaviours of other properties, every statement re-spelled, identical traces required
    def extra_checks(self, tier, seed, run):
        import importlib
        import json

        big = tier == "thorough"
        total = diff = 0
        for pid, families, n in (("c04", ("edges",), 500), ("c15", ("walks_small", "paths"), 500), ("c13", ("walks",), 300), ("c16", ("edges2",), 400),
                                 ("c03", ("walks_small",), 200)):
            prop = importlib.import_module(f"props.{pid}").PROP()
            other = core.Run(prop, "quick", seed)
            gens = [g for g in prop.generations("quick", seed) if g["name"] in families]
            prop_generations = prop.generations
            prop.generations = lambda tier, seed, gens=gens: gens
            other.generate()
            prop.generations = prop_generations
            items = sorted(other.behaviours.items())
            random.Random(seed).shuffle(items)
            other.behaviours = dict(items[: (n * 3 if big else n)])
            plain = {t["tid"]: t["ev"] for t in other.drive_all()}
            for mode in ("upper", "lower") if big else ("upper",):
                for t in other.drive_all(respell_mode=mode):
                    total += 1
                    a, b = plain[t["tid"]], t["ev"]
                    if [e["obs"] for e in a] != [e["obs"] for e in b]:
                        diff += 1
                        at = next((i for i, (x, y) in enumerate(zip(a, b), 1) if x["obs"] != y["obs"]), len(a))
                        if diff <= 10:
                            run.violations.append({"tid": f"respell-{pid}-{t['tid']}-{mode}", "verdict": {"v": "fail", "at": at, "got": b[at - 1]["obs"], "want": [a[at - 1]["obs"]]},
                                                   "trace": {"tid": f"respell-{pid}-{mode}", "ev": b}})
        run.extra_cov["respelled_behaviours_compared_with_their_plain_run"] = total
        run.extra_cov["respelled_behaviours_that_differ"] = diff

    # ------------------------------------------------------------------------------------------------ driver
    def drive(self, ops, rng):
        from snowflake.connector.cursor import DictCursor

        import fakesnow

        global _N
        _N += 1
        alpha = rng.choice(("ascii", "ascii", "cyrillic"))
        set_alphabet(alpha)
        fs = fakesnow.instance.FakeSnow()
        conn = fs.connect("DB1", "S1")
        cur = conn.cursor()
        cur.execute("create table base (k int)")
        cur.execute("insert into base values (1)")
        ev = []
        made_cols = []
        self.made_alias = made_cols
        self.made_table = []
        for op in ops:
            k = op["k"]
            obs = {"res": "ok", "names": []}
            try:
                if k == "make" and op["kind"] == "alias":
                    made_cols[:] = [op["sp"]]
                elif k == "make":
                    obs = self.make(op, conn, rng, made_cols)
                elif k == "find":
                    obs = self.find(op, conn, rng)
                elif k == "names":
                    obs = self.names(op, conn, made_cols)
                elif k == "quotedpair":
                    names = []
                    for sp2 in (op["first"], op["second"]):
                        if op["ch"] == "description":
                            cur.execute(f"select 1 as {SP[sp2]}")
                            names.append(cur.description[0].name)
                        else:
                            names += list(conn.cursor(DictCursor).execute(f"select 1 as {SP[sp2]}").fetchall()[0].keys())
                    obs = {"res": "ok", "names": sorted(set(names))}
                elif k == "kwcase" and op.get("what") == "set_tag":
                    conn.cursor().execute("create table if not exists tagt (c int)")
                    rows = conn.cursor().execute(kwcase("alter table tagt modify column c set tag k = «'v'»", op["kw"], rng)).fetchall()
                    obs = {"res": "ok" if len(rows) == 1 else "err", "names": []}
                elif k == "kwcase":
                    sql = kwcase(f"create user «{op['name'].lower()}»", op["kw"], rng)
                    conn.cursor().execute(sql)
                    rows = conn.cursor().execute("show users").fetchall()
                    obs = {"res": "ok", "names": sorted({r[0] for r in rows})}
            except Exception as e:
                obs = {"res": "err", "names": []}
            obs = back(obs)
            if isinstance(obs.get("names"), list):
                obs["names"] = sorted(obs["names"])
            ev.append({"op": dict(op, alphabet=alpha), "obs": obs})
        fs.duck_conn.close()
        set_alphabet("ascii")
        return ev

    def run(self, conn, sql, kw, rng, dict_cursor=False):
        from snowflake.connector.cursor import DictCursor

        cur = conn.cursor(DictCursor) if dict_cursor else conn.cursor()
        cur.execute(kwcase(sql, kw, rng))
        return cur

    def make(self, op, conn, rng, made_cols):
        import snowflake.connector.errors as sferr

        kind, sp, kw = op["kind"], SP[op["sp"]], op["kw"]
        sql = {"table": f"create table {keep(sp)} (c int primary key)", "view": f"create view {keep(sp)} as select k from base",
               "column": f"alter table colt add column «{sp}» int", "schema": f"create schema {keep(sp)}",
               "alias": None, "variable": f"set «{sp}» = 7"}[kind]
        if kind == "column":
            conn.cursor().execute("create table if not exists colt (z int)")
        if kind == "alias":
            made_cols.append(op["sp"])
            return {"res": "exists" if FOLD[op["sp"]] in [FOLD[x] for x in made_cols[:-1]] else "ok", "names": []}
        try:
            cur = self.run(conn, sql, kw, rng)
        except sferr.ProgrammingError as e:
            if "already exists" in str(e.msg) or "Duplicate" in str(e.msg) or "already" in str(e.msg):
                return {"res": "exists", "names": []}
            raise
        rows = cur.fetchall()
        names = []
        if kind in ("table", "view", "schema") and rows and isinstance(rows[0][0], str):
            m = re.match(r"(?:Table|View|Schema) (.*) successfully created\.", rows[0][0])
            names = [m.group(1)] if m else ["?" + rows[0][0]]
        if kind == "table":
            self.made_table.append(op["sp"])
            conn.cursor().execute(f"insert into {sp} values (1)")
        return {"res": "ok", "names": names}

    def find(self, op, conn, rng):
        import snowflake.connector.errors as sferr

        kind, sp, kw, stmt = op["kind"], SP[op["sp"]], op["kw"], op["stmt"]
        q = keep(sp)
        if kind in ("table", "view"):
            sql = {"select": f"select count(*) from {q}", "insert": f"insert into {q} select 1 where 1 = 0", "update": f"update {q} set c = c where 1 = 0",
                   "delete": f"delete from {q} where 1 = 0", "describe": f"describe {'view' if kind == 'view' else 'table'} {q}",
                   "droprecreate": f"create or replace table {q} (c int)", "merge_target": f"merge into {q} using base on {q}.c = base.k when matched then delete",
                   "merge_source": f"merge into base using {q} on base.k = «{SP[op['sp2']]}».c when matched then delete",
                   "join": f"select count(*) from base join {q} on 1 = 1"}[stmt]
        elif kind == "column":
            sql = {"select": f"select {q} from colt", "where": f"select count(*) from colt where {q} is null", "insert_cols": f"insert into colt (z, {q}) select 1, 2 where 1 = 0",
                   "update_set": f"update colt set {q} = 1 where 1 = 0", "orderby": f"select z from colt order by {q}"}[stmt]
        elif kind == "schema":
            sql = {"use": f"use schema {q}", "qualify": f"select count(*) from {q}.probe", "createin": f"create or replace table {q}.probe (i int)",
                   "describe_in": f"describe table {q}.probe", "use_then_describe": f"use schema {q}"}[stmt]
            if stmt in ("qualify", "describe_in", "use_then_describe"):
                # make the probe table exist in every schema that exists, through the raw cursor
                raw = conn._duck_conn  # noqa: SLF001
                for (s,) in raw.execute("select schema_name from information_schema.schemata where catalog_name = 'DB1' and schema_name not in ('main', 'information_schema', 'pg_catalog')").fetchall():
                    raw.execute(f'create table if not exists DB1."{s}"."PROBE" (i int)')
        elif kind == "alias":
            if not self.made_alias:
                return {"res": "missing", "names": []}
            made = SP[self.made_alias[-1]]
            sql = {"join_on": f"select base.k as «{made}» from base join base j on {q} = j.k",
                   "orderby": f"select k as «{made}» from base order by {q}"}[stmt]
            try:
                self.run(conn, sql, kw, rng).fetchall()
                return {"res": "found", "names": []}
            except sferr.ProgrammingError:
                return {"res": "missing", "names": []}
        else:
            sql = f"select $«{sp}»"
        try:
            cur = self.run(conn, sql, kw, rng)
            rows = cur.fetchall()
            if stmt == "use_then_describe":
                rows = conn.cursor().execute("describe table probe").fetchall()
            if stmt in ("describe_in", "use_then_describe", "describe") and not rows:
                return {"res": "missing", "names": []}          # an existing object described as having no columns
            if kind == "schema" and stmt in ("use", "use_then_describe"):
                conn.cursor().execute("use schema s1")
            return {"res": "found", "names": []}
        except sferr.ProgrammingError as e:
            if e.errno in (2003, 2043) or "does not exist" in str(e.msg):
                return {"res": "missing", "names": []}
            return {"res": "err", "names": []}

    def _alias_find(self, op, conn, rng):
        # aliases live in one statement: created and referred to there
        return {"res": "missing", "names": []}

    def names(self, op, conn, made_cols):
        from snowflake.connector.cursor import DictCursor

        kind, ch = op["kind"], op["ch"]
        cur = conn.cursor()
        user = lambda rows, idx=0: sorted({r[idx] for r in rows})  # noqa: E731
        if kind == "table":
            if ch == "info_tables":
                rows = cur.execute("select table_name from information_schema.tables where table_schema = 'S1' and table_type = 'BASE TABLE'").fetchall()
            elif ch == "show_tables":
                rows = [(r[1],) for r in cur.execute("show tables in schema s1").fetchall()]
            elif ch == "show_pk":
                # in the scope of the table itself, named as it was created
                rows = [(r[3],) for r in cur.execute(f"show primary keys in table {SP[self.made_table[-1]]}").fetchall()] if self.made_table else []
            else:
                rows = [(r[1],) for r in cur.execute("show objects in schema s1").fetchall() if r[2] == "TABLE"]
            return {"res": "ok", "names": [n for n in user(rows) if n not in ("BASE", "COLT", "PROBE", "TAGT")]}
        if kind == "view":
            if ch == "info_views":
                rows = cur.execute("select table_name from information_schema.views where table_schema = 'S1'").fetchall()
            elif ch == "info_tables":
                rows = cur.execute("select table_name from information_schema.tables where table_schema = 'S1' and table_type = 'VIEW'").fetchall()
            else:
                rows = [(r[1],) for r in cur.execute("show objects in schema s1").fetchall() if r[2] == "VIEW"]
            return {"res": "ok", "names": user(rows)}
        if kind == "column":
            conn.cursor().execute("create table if not exists colt (z int)")
            if ch == "description":
                cur.execute("select * from colt")
                names = [m.name for m in cur.description]
            elif ch == "dictkeys":
                conn.cursor().execute("insert into colt (z) values (0)")
                d = conn.cursor(DictCursor)
                names = list(d.execute("select * from colt limit 1").fetchall()[0].keys())
            elif ch == "info_columns":
                names = [r[0] for r in cur.execute("select column_name from information_schema.columns where table_schema = 'S1' and table_name = 'COLT'").fetchall()]
            else:
                names = [r[0] for r in cur.execute("describe table colt").fetchall()]
            return {"res": "ok", "names": sorted(n for n in set(names) if n != "Z")}
        if kind == "schema":
            if ch == "show_schemas":
                rows = [(r[1],) for r in cur.execute("show schemas in database db1").fetchall()]
                return {"res": "ok", "names": [n for n in user(rows) if n not in ("S1", "information_schema", "INFORMATION_SCHEMA")]}
            out = set()
            raw = conn._duck_conn  # noqa: SLF001
            for (s,) in raw.execute("select schema_name from information_schema.schemata where catalog_name = 'DB1' and schema_name not in ('main', 'information_schema', 'pg_catalog', 'S1')").fetchall():
                conn.cursor().execute(f'use schema "{s}"')
                out.add(conn.schema)
            conn.cursor().execute("use schema s1")
            return {"res": "ok", "names": sorted(out)}
        if kind == "alias":
            sel = ", ".join(f"{i} as {SP[s]}" for i, s in enumerate(dict.fromkeys(made_cols))) or "1 as z"
            seen = {}
            for s in made_cols:
                seen.setdefault(FOLD[s], s)
            sel = ", ".join(f"{i} as {SP[s]}" for i, s in enumerate(seen.values())) or "1 as zz"
            cols = ", ".join(SP[s] for s in seen.values()) or "zz"
            vals = ", ".join(str(i) for i in range(max(1, len(seen))))
            if ch == "description":
                cur.execute(f"select {sel}")
                names = [m.name for m in cur.description]
            elif ch == "collist_description":
                cur.execute(f"select * from (values ({vals})) as v({cols})")
                names = [m.name for m in cur.description]
            elif ch == "cte_description":
                cur.execute(f"with c({cols}) as (select {vals}) select * from c")
                names = [m.name for m in cur.description]
            elif ch == "collist_dictkeys":
                d = conn.cursor(DictCursor)
                names = list(d.execute(f"select * from (values ({vals})) as v({cols})").fetchall()[0].keys())
            else:
                d = conn.cursor(DictCursor)
                names = list(d.execute(f"select {sel}").fetchall()[0].keys())
            return {"res": "ok", "names": sorted(n for n in set(names) if n != "ZZ")}
        return {"res": "ok", "names": []}


PROP = C02
