"""C15 - session variables substitute exactly, per connection (spec: FsVars)."""
from __future__ import annotations

from harness.core import Prop

VAL_SQL = {"n7": "7", "n42": "42", "sx": "'x'", "sq": "'it''s'", "expr": "1 + 2", "nneg": "-5", "fcoal": "coalesce(null, null, 7)",
           "fconc": "concat('he', 'l', 'lo')"}
OK_STATUS = [("Statement executed successfully.",)]


def spell(n: str, cs: str) -> str:
    if cs == "upper":
        return n
    if cs == "lower" or n != "AB":
        return n.lower()
    return "aB"


def canon(v) -> str:
    import decimal

    if isinstance(v, bool):
        return str(v)
    if isinstance(v, decimal.Decimal):
        return str(int(v)) if v == v.to_integral_value() else str(v)
    return str(v)


_FS = None


class C15(Prop):
    id = "C15"
    noise_sample = 300
    gen_module = "FsVarsGen"
    judge_module = "FsVarsJudge"
    assumptions = [
        "variable names V, V1, V10 (prefixes of each other), B, AB in lower/upper/mixed case; values 7, 42, -5, 'x', 'it''s', 1+2; bound text that looks like a reference; "
        "statements that neither set nor use a variable (answered with and without reaching the engine) in between",
        "two connections of one instance, each observed through a long-lived cursor and through fresh cursors",
        "UNSET of a variable that is not set may succeed or raise ProgrammingError (the property does not say)",
    ]
    ALLN = {"V", "V1", "V10", "B", "AB"}
    ALLV = {"n7", "n42", "sx", "sq", "expr", "nneg", "fcoal", "fconc"}

    def consts(self, tier):
        return {"Conns": {"c1", "c2"}, "Names": self.ALLN, "Vals": self.ALLV, "CasingsUsed": {"lower", "upper", "mixed"}, "CursUsed": {1, 2}}

    def model_checks(self, tier):
        big = tier == "thorough"
        c = {"Conns": {"c1", "c2"}, "Names": {"V", "V1", "V10"} if big else {"V", "V1"}, "Vals": {"n7", "sx", "expr"},
             "Devs": set(), "Depth": 8, "MaxFails": 0, "SampleOneIn": 1, "CasingsUsed": {"lower", "upper", "mixed"}, "CursUsed": {1, 2}}
        out = [dict(name="mc_ideal", consts=c, invariants=["StepInv"], constraint="Bound", view="ViewSt")]
        for d in sorted(["C15.ref_in_string_literal", "C15.expr_value_textual"]):
            out.append(dict(name="mc_" + d.split(".")[1], consts=dict(c, Conns={"c1"}, Names={"V"}, Vals={"n7", "expr"}, Devs={d}, Depth=4),
                            invariants=["StepInv"], constraint="Bound", view="ViewSt", devs=[d]))
        return out

    def generations(self, tier, seed):
        big = tier == "thorough"
        base = {"Devs": set(), "MaxFails": 0, "SampleOneIn": 1, "CasingsUsed": {"lower", "upper", "mixed"}, "CursUsed": {1, 2}}
        small = dict(base, CasingsUsed={"lower"}, CursUsed={1})
        g = [
            # every operation sequence up to a bounded length over a tiny vocabulary: repeats of the same statement text
            # with SET / UNSET in between (statement caches, stale state)
            dict(name="paths", mode="paths", sample=None if big else 5000, consts=dict(small, Conns={"c1"}, Names={"V"}, Vals={"n7", "n42"}, Depth=6 if big else 5)),
            dict(name="paths2", mode="paths", sample=None if big else 3000,
                 consts=dict(small, Conns={"c1", "c2"}, Names={"V"}, Vals={"n7", "n42"}, Depth=5 if big else 4)),
            dict(name="walks_small", mode="walks", depth=12, num=2000 if big else 400, seed_offset=5,
                 consts=dict(small, CursUsed={1, 2}, Conns={"c1", "c2"}, Names={"V", "V1"}, Vals={"n7", "n42", "sx"}, Depth=12)),
            dict(name="edges", mode="edges", sample=None if big else 3000,
                 consts=dict(base, Conns={"c1", "c2"}, Names={"V", "V1"}, Vals={"n7", "sx", "expr", "nneg", "fcoal", "fconc"}, Depth=5)),
            dict(name="edges_prefix", mode="edges", sample=None if big else 3000,
                 consts=dict(base, Conns={"c1"}, Names={"V", "V1", "V10"}, Vals={"n7", "n42"}, Depth=6)),
            dict(name="walks", mode="walks", depth=10, num=3000 if big else 600,
                 consts=dict(base, Conns={"c1", "c2"}, Names=self.ALLN, Vals=self.ALLV, Depth=10)),
        ]
        if big:
            g.append(dict(name="walks_long", mode="walks", depth=30, num=1000, seed_offset=3,
                          consts=dict(base, Conns={"c1", "c2"}, Names=self.ALLN, Vals=self.ALLV, Depth=30)))
        return g

    def nontrivial(self, ops):
        return any(o["k"] == "set" for o in ops) and any(o["k"] in ("sel", "mul", "both", "lit") for o in ops)

    def drive(self, ops, rng):
        import snowflake.connector.errors as sferr

        import fakesnow

        global _FS
        if _FS is None:
            _FS = fakesnow.instance.FakeSnow(nop_regexes=["^CALL VT_NOP"])
            _FS.connect("DB1", "S1").cursor().execute("create table if not exists vt_other (x int)")
        conns = {c: _FS.connect("DB1", "S1") for c in ("c1", "c2")}
        longcur = {c: conns[c].cursor() for c in conns}
        ev = []
        kwcase = rng.choice([str.lower, str.upper])  # one keyword spelling per behaviour: equal ops give equal text
        for op in ops:
            k = op["k"]
            cur = longcur[op["c"]] if op["u"] == 1 else conns[op["c"]].cursor()
            sp = spell(op["n"], op["cs"]) if "n" in op else ""
            kw = kwcase
            if k == "set":
                sql = f"{kw('set')} {sp} = {VAL_SQL[op['v']]}"
            elif k == "unset":
                sql = f"{kw('unset')} {sp}"
            elif k == "sel":
                sql = f"{kw('select')} ${sp}"
            elif k == "mul":
                sql = f"{kw('select')} ${sp} * 2"
            elif k == "both":
                sql = f"{kw('select')} ${sp}, ${spell(op['m'], op['cs'])}"
            elif k == "lit":
                sql = f"{kw('select')} 'p ${sp} q'"
            elif k == "lit5":
                sql = f"{kw('select')} 'cost $5'"
            elif k == "bind":
                sql = f"{kw('select')} %s"
            elif k == "lit2":
                sql = f"{kw('select')} 'US$$', ${sp}"
            elif k == "setsel":
                sql = f"{kw('set')} {sp} = {VAL_SQL[op['v']]}; {kw('select')} ${sp}"
            elif k == "other":
                sql = {"cluster_by": "alter table vt_other cluster by (x)", "nop_regex": "call vt_nop()", "select1": "select 1"}[op["w"]]
            else:
                raise ValueError(k)
            try:
                if k == "bind":
                    cur.execute(sql, (f"p ${sp} q",))
                    rows = cur.fetchall()
                elif k == "setsel":
                    rows = list(conns[op["c"]].execute_string(sql))[-1].fetchall()
                else:
                    cur.execute(sql)
                    rows = cur.fetchall()
                if k == "other":
                    obs = {"res": "ok" if len(rows) == 1 else "badstatus", "vals": []}
                elif k in ("set", "unset"):
                    obs = {"res": "ok" if rows == OK_STATUS else "badstatus", "vals": []}
                else:
                    obs = {"res": "rows", "vals": [canon(v) for v in rows[0]]} if len(rows) == 1 else {"res": "badrows", "vals": []}
            except sferr.ProgrammingError as e:
                msg = str(e.msg)
                pre, post = "Session variable '$", "' does not exist"
                if pre in msg and msg.endswith(post):
                    obs = {"res": "undef:" + msg[msg.index(pre) + len(pre): -len(post)], "vals": []}
                else:
                    obs = {"res": "perr", "vals": []}
            except Exception:
                obs = {"res": "exc", "vals": []}
            ev.append({"op": op, "obs": obs})
        for c in conns.values():
            c.close()
        return ev


PROP = C15
