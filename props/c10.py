"""C10 - rewritten Snowflake functions return what Snowflake documents (spec: FsFuncs)."""
from __future__ import annotations

import datetime
import decimal
import hashlib
import json

from harness import core, tlc
from harness.core import Prop

CTXS = ["select", "where", "nested", "cte", "view", "insert", "update"]
_FS = None
_N = 0


def lit_chars(q):
    return "'" + "".join(q).replace("'", "''") + "'"


def expr_of(op):
    fn = op["fn"]
    if fn == "dateadd":
        y, m, d = op["d"]
        return f"dateadd({op['part']}, {op['n']}, '{y:04d}-{m:02d}-{d:02d}'::date)"
    if fn == "dateaddsub":
        y, m, d = op["d"]
        return f"dateadd({op['part']}, {op['n']}, '{y:04d}-{m:02d}-{d:02d}'::date)"
    if fn == "totimestamp":
        n = {0: "1700000000", 3: "1700000000123", 6: "1700000000123456", 9: "1700000000123456000"}[op["scale"]]
        return f"{op['name']}({n}, {op['scale']})"
    if fn == "datediff":
        a, b = op["a"], op["b"]
        return f"datediff({op['part']}, '{a[0]:04d}-{a[1]:02d}-{a[2]:02d}'::date, '{b[0]:04d}-{b[1]:02d}-{b[2]:02d}'::date)"
    if fn == "todec":
        x = decimal.Decimal(op["x"]) / 1000
        arg = f"'{x:.3f}'" if op["how"] == "str" else f"{x:.3f}::float" if op["how"] == "flt" else f"{x:.3f}"
        name = ("try_" if op["try"] else "") + op["name"]
        form = op.get("form", "ps")
        if form == "cast":
            return f"({arg})::number"
        return f"{name}({arg})" if form == "dflt" else f"{name}({arg}, {op['p']}, {op['s']})"
    if fn == "todecbig":
        name = ("try_" if op["try"] else "") + op["name"]
        form = op["form"]
        if form == "cast":
            return f"{'try_cast' if op['try'] else 'cast'}('{op['digits']}' as number)"
        return f"{name}('{op['digits']}')" if form == "dflt" else f"{name}('{op['digits']}', 38, 0)"
    if fn == "equalnull":
        return f"equal_null({op['a']}, {op['b']})"
    if fn == "trim":
        args = lit_chars(op["s"]) + (", " + lit_chars(op["chars"]) if op["chars"] else "")
        return f"{op['which']}({args})"
    if fn == "resub":
        pat = {"digits": "[0-9]+", "lit_b": "b", "letter_digits": "([a-z])([0-9]+)"}[op["shape"]]
        args = [lit_chars(op["s"]), f"'{pat}'"]
        if op["grp"]:
            args += [str(op["pos"]), str(op["occ"]), "'e'", str(op["grp"])]
        elif op["occ"] != 1:
            args += [str(op["pos"]), str(op["occ"])]
        elif op["pos"] != 1:
            args += [str(op["pos"])]
        return "regexp_substr(" + ", ".join(args) + ")"
    if fn == "rerep":
        pat = {"digits": "[0-9]+", "lit_b": "b", "letter_digits": "([a-z])([0-9]+)"}[op["shape"]]
        args = [lit_chars(op["s"]), f"'{pat}'"] + ([lit_chars(op["repl"])] if op["repl"] else [])
        return "regexp_replace(" + ", ".join(args) + ")"
    raise ValueError(fn)


def canon(v, op):
    """value -> (res, text, class)"""
    if v is None:
        return "null", "", "NoneType"
    ty = type(v).__name__
    if op["fn"] == "todecbig":
        return "val", str(v) if isinstance(v, (decimal.Decimal, int)) and not isinstance(v, bool) else repr(v), "Decimal" if isinstance(v, decimal.Decimal) else ty
    if op["fn"] == "todec":
        if not isinstance(v, (decimal.Decimal, int)):
            return "val", repr(v), ty
        return "val", str(int(decimal.Decimal(v).scaleb(op["s"]).to_integral_value())) if decimal.Decimal(v).scaleb(op["s"]) == decimal.Decimal(v).scaleb(op["s"]).to_integral_value() else repr(v), "Decimal" if isinstance(v, decimal.Decimal) else ty
    if isinstance(v, datetime.datetime):
        cls = "datetime" if v.tzinfo is None else "datetime_tz"
        if op["fn"] in ("dateaddsub", "totimestamp"):
            return "val", v.replace(tzinfo=None).isoformat(), cls
        return "val", v.date().isoformat() if (v.hour, v.minute, v.second, v.microsecond) == (0, 0, 0, 0) else v.isoformat(), cls
    if isinstance(v, datetime.date):
        return "val", v.isoformat(), "date"
    if isinstance(v, bool):
        return "val", str(v), "bool"
    if isinstance(v, (int, decimal.Decimal)):
        return "val", str(int(v)), "int" if isinstance(v, int) else ty
    return "val", str(v), ty


class C10(Prop):
    id = "C10"
    gen_module = "FsFuncsGen"
    judge_module = "FsFuncsJudge"
    assumptions = [
        "grids: 19 dates across month / leap-year / epoch / century boundaries x 5 date parts x 7 offsets; decimals at every rounding "
        "midpoint for scale <= 2 and at the precision limit (p <= 10: TLC integers are 32 bit); strings as character sequences; "
        "three regular-expression shapes (literal, [0-9]+, ([a-z])([0-9]+)) - regex ENGINE semantics beyond them are not decided",
        "SHA-2 is judged through equalities between the variants and the FIPS 180 vectors for 'abc' and ''; RANDOM / SAMPLE through determinism",
        "contexts: select list, WHERE, nested call, CTE, view, INSERT ... SELECT, UPDATE SET",
        "the calendar and rounding operators of the specification are cross-checked against Python's datetime / decimal on the whole grid first; "
        "a disagreement is a machinery failure, never a verdict",
        "TO_* format strings, REGEXP_REPLACE position/occurrence arguments and SHA2 with other digest sizes raise (rejected rather than answered): not generated",
    ]

    def consts(self, tier):
        return {"CtxUsed": set(CTXS), "Grid": "full"}

    def model_checks(self, tier):
        big = tier == "thorough"
        c = {"CtxUsed": {"select"}, "Grid": "full" if big else "small", "Devs": set(), "Depth": 2, "MaxFails": 0, "SampleOneIn": 1}
        out = [dict(name="mc_ideal", consts=c, invariants=["StepInv"], constraint="Bound", view="ViewSt", timeout=1500)]
        for d in ("C10.dateadd_quarter_is_90_days", "C10.to_decimal_numeric_truncates", "C10.to_decimal_overflow_not_rejected",
                  "C10.trim_chars_ignored", "C10.two_seeded_randoms_rejected", "C10.datediff_week_not_monday_boundaries"):
            out.append(dict(name="mc_" + d.split(".")[1], consts=dict(c, Devs={d}, Grid="small"), invariants=["StepInv"], constraint="Bound",
                            view="ViewSt", devs=[d]))
        return out

    def generations(self, tier, seed):
        big = tier == "thorough"
        base = {"Devs": set(), "MaxFails": 0, "SampleOneIn": 1}
        return [
            dict(name="cases", mode="edges", sample=None if big else 7000, consts=dict(base, CtxUsed={"select"}, Grid="full", Depth=2)),
            dict(name="contexts", mode="edges", sample=None if big else 3000,
                 consts=dict(base, CtxUsed=set(CTXS) - {"select"}, Grid="small", Depth=2)),
        ]

    def nontrivial(self, ops):
        return True

    # ---- the oracle is checked against the Python standard library before it is used
    def extra_checks(self, tier, seed, run):
        cfg = core.write_cfg("C10_oracle", {"CtxUsed": {"select"}, "Grid": "full", "Devs": set(), "Depth": 2, "MaxFails": 0, "SampleOneIn": 1},
                             constraint="Bound", view="ViewSt", action_constraint="EmitOracle")
        r = tlc.run("FsFuncsGen", cfg, workers=1, timeout=900)
        n = bad = 0
        for op, exp in r.prints.get("O", []):
            exp = exp[0] if isinstance(exp, list) else exp
            n += 1
            if op["fn"] == "dateadd":
                y, m, d = op["d"]
                base = datetime.date(y, m, d)
                if op["part"] in ("day", "week"):
                    ref = base + datetime.timedelta(days=op["n"] * (7 if op["part"] == "week" else 1))
                else:
                    months = op["n"] * {"month": 1, "quarter": 3, "year": 12}[op["part"]]
                    k = y * 12 + (m - 1) + months
                    yy, mm = divmod(k, 12)
                    import calendar

                    ref = datetime.date(yy, mm + 1, min(d, calendar.monthrange(yy, mm + 1)[1]))
                ok = exp["v"] == ref.isoformat()
            elif op["fn"] == "datediff":
                a, b = datetime.date(*op["a"]), datetime.date(*op["b"])
                if op["part"] == "day":
                    ref = (b - a).days
                elif op["part"] == "week":
                    mon = lambda x: x - datetime.timedelta(days=x.weekday())  # noqa: E731
                    ref = (mon(b) - mon(a)).days // 7
                elif op["part"] == "month":
                    ref = (b.year * 12 + b.month) - (a.year * 12 + a.month)
                elif op["part"] == "quarter":
                    ref = (b.year * 4 + (b.month - 1) // 3) - (a.year * 4 + (a.month - 1) // 3)
                else:
                    ref = b.year - a.year
                ok = exp["v"] == str(ref)
            else:
                x = decimal.Decimal(op["x"]) / 1000
                q = x.quantize(decimal.Decimal(1).scaleb(-op["s"]), rounding=decimal.ROUND_HALF_UP)
                fits = abs(q.scaleb(op["s"])) < 10 ** op["p"]
                ok = (exp["res"] == "val" and fits and exp["v"] == str(int(q.scaleb(op["s"])))) or (exp["res"] != "val" and not fits)
            bad += 0 if ok else 1
            if not ok and bad <= 3:
                run.notes.append(f"oracle disagreement: {op} -> {exp}")
        if n == 0 or bad:
            raise tlc.MachineryError(f"specification oracle disagrees with the Python standard library on {bad} of {n} cases: {run.notes[-3:]}")
        run.extra_cov["oracle_cases_cross_checked_against_python_stdlib"] = n

    # ------------------------------------------------------------------------------------------------ driver
    def drive(self, ops, rng):
        import fakesnow

        global _FS, _N
        if _FS is None:
            _FS = fakesnow.instance.FakeSnow()
        _N += 1
        sc = f"S{_N}"
        conn = _FS.connect("DB1", sc)
        cur = conn.cursor()
        ev = []
        for op in ops:
            try:
                res, v, ty = self.case(op, cur, conn, rng)
            except Exception:
                res, v, ty = "err", "", ""
            if op["fn"] == "datediff" and op["part"] == "week" and res == "val" and ty == "int":
                want = None  # noqa: F841
            ev.append({"op": op, "obs": {"res": res, "v": v, "ty": ty}})
        _FS.duck_conn.cursor().execute(f"drop schema if exists DB1.{sc} cascade")
        return ev

    def case(self, op, cur, conn, rng):
        fn = op["fn"]
        if fn == "relation":
            return self.relation(op["rel"], cur)
        if fn == "valuescols":
            n = op["n"]
            cur.execute("select * from (values (" + ", ".join(str(i) for i in range(n)) + "))")
            return "val", ",".join(d.name for d in cur.description), "str"
        if fn == "arrayagg":
            n, order = op["n"], op["order"]
            ins = list(range(1, n + 1))
            rng.shuffle(ins)
            src = " union all ".join(f"select {i} as x" for i in ins)
            wg = {"none": "", "asc": " within group (order by x)", "desc": " within group (order by x desc)"}[order]
            v = cur.execute(f"select array_agg(x){wg} from ({src})").fetchall()[0][0]
            got = json.loads(v)
            if order == "none":
                return "val", "anyorder" if sorted(got) == list(range(1, n + 1)) else str(got), "list"
            return "val", ",".join(str(i) for i in got), "list"
        e = expr_of(op)
        ctx = op["ctx"]
        if ctx == "select":
            rows = cur.execute(f"select {e} as v").fetchall()
        elif ctx == "where":
            rows = cur.execute(f"select v from (select {e} as v) q where v is not distinct from {e}").fetchall()
        elif ctx == "nested":
            rows = cur.execute(f"select coalesce({e}, {e}) as v").fetchall()
        elif ctx == "selfnested":
            rows = cur.execute(f"select regexp_replace({e}, 'zzz', '') as v").fetchall()
        elif ctx == "upper_nested":
            rows = cur.execute(f"select regexp_replace(lower(upper({e})), 'zzz', '') as v").fetchall()
        elif ctx == "cte":
            rows = cur.execute(f"with c as (select {e} as v) select v from c").fetchall()
        elif ctx == "view":
            cur.execute(f"create or replace view vw as select {e} as v")
            rows = cur.execute("select v from vw").fetchall()
        elif ctx in ("insert", "update"):
            ty = {"dateadd": "date", "equalnull": "boolean"}.get(fn, "varchar")
            cur.execute(f"create or replace table r (v {ty})")
            if ctx == "insert":
                cur.execute(f"insert into r select {e}")
            else:
                cur.execute("insert into r values (null)")
                cur.execute(f"update r set v = {e}")
            rows = cur.execute("select v from r").fetchall()
        else:
            raise ValueError(ctx)
        if len(rows) != 1:
            return "val", f"rows={len(rows)}", ""
        res, v, ty = canon(rows[0][0], op)
        if fn == "datediff" and op["part"] == "week" and res == "val":
            a, b = datetime.date(*op["a"]), datetime.date(*op["b"])
            mon = lambda x: x - datetime.timedelta(days=x.weekday())  # noqa: E731
            if v != str((mon(b) - mon(a)).days // 7):
                v = "engine-week"       # a wrong value: which one is the engine's business (see the deviation)
        return res, v, ty

    def relation(self, rel, cur):
        def one(sql):
            return cur.execute(sql).fetchall()[0][0]

        if rel == "sha2_default_256":
            ok = one("select sha2('fakesnow') = sha2('fakesnow', 256)")
        elif rel == "sha2_hex_same":
            ok = one("select sha2_hex('fakesnow') = sha2('fakesnow')")
        elif rel == "sha2_binary_unhex":
            b = one("select sha2_binary('fakesnow')")
            ok = bytes(b).hex() == one("select sha2('fakesnow')")
        elif rel == "sha2_abc_fips":
            ok = one("select sha2('abc')") == "ba7816bf8f01cfea414140de5dae2223b00361a396177a9cb410ff61f20015ad"
        elif rel == "sha2_empty_fips":
            ok = one("select sha2('')") == hashlib.sha256(b"").hexdigest() == "e3b0c44298fc1c149afbf4c8996fb92427ae41e4649b934ca495991b7852b855"
        elif rel == "random_same_seed_repeatable":
            ok = one("select random(42)") == one("select random(42)") and isinstance(one("select random(42)"), int)
        elif rel == "random_seed0_repeatable":
            ok = one("select random(0)") == one("select random(0)") and one("select random(-3)") == one("select random(-3)")
        elif rel == "random_same_seed_equal":
            ok = one("select random(42) = random(42)")
        elif rel == "sample_seed_repeatable":
            cur.execute("create or replace table sm as select seq4() as i from table(generator(rowcount => 50))") if False else None
            cur.execute("create or replace table sm (i int)")
            cur.execute("insert into sm values " + ",".join(f"({i})" for i in range(60)))
            a = cur.execute("select i from sm sample (50) seed (7) order by i").fetchall()
            b = cur.execute("select i from sm sample (50) seed (7) order by i").fetchall()
            ok = a == b and 0 < len(a) < 60
        elif rel == "identifier_is_name":
            cur.execute("create or replace table idt (i int)")
            cur.execute("insert into idt values (5)")
            ok = cur.execute("select i from identifier('idt')").fetchall() == cur.execute("select i from idt").fetchall() == [(5,)]
        elif rel == "join_alias_reuse":
            cur.execute("create or replace table ja (i int)")
            cur.execute("insert into ja values (1), (2)")
            ok = cur.execute("select a.i + 1 as k, b.i from ja a join ja b on k = b.i order by 1").fetchall() == [(2, 2)]
        elif rel == "sha2_binary_arg_rejected_or_right":
            # a form that is not supported is rejected rather than answered wrongly
            ok = True
            cur.execute("create or replace table chain (digest binary)")
            cur.execute("insert into chain select sha2_binary('abc')")          # 32 raw bytes, most of them not printable
            inner = hashlib.sha256(b"abc").digest()
            for q, want in (("select sha2('abc'::binary)", hashlib.sha256(b"abc").hexdigest()), ("select sha2(digest) from chain", hashlib.sha256(inner).hexdigest()),
                            ("select sha2_hex(digest, 256) from chain", hashlib.sha256(inner).hexdigest())):
                try:
                    ok = ok and one(q) == want
                except Exception:
                    pass
        elif rel == "join_alias_other_block":
            # an alias of ANOTHER query block (derived table, CTE, scalar subquery) is not an alias of this select list
            cur.execute("create or replace table jb (id int, s varchar)")
            cur.execute("insert into jb values (1, 'a'), (2, 'b'), (3, 'c')")
            cur.execute("create or replace table jc (id int)")
            cur.execute("insert into jc values (1), (3)")
            r1 = cur.execute("select jc.id, b.s from jc join (select id as k, s from jb) b on k = jc.id order by 1").fetchall()
            r2 = cur.execute("select jc.id + 0 as k, b.s from jc join (select id + 1 as k, s from jb) b on b.k = jc.id order by 1").fetchall()
            r3 = cur.execute("with c as (select id as k from jb) select jc.id * 1 as k2, c.k from jc join c on k = jc.id order by 1").fetchall()
            ok = r1 == [(1, "a"), (3, "c")] and r2 == [(3, "b")] and r3 == [(1, 1), (3, 3)]
        else:
            raise ValueError(rel)
        return "val", str(bool(ok)), "bool"


PROP = C10
