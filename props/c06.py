"""C06 - cursor.description matches the result of every executed statement (spec: FsDescr)."""
from __future__ import annotations

from harness.core import Prop

COLS = ["n", "n10", "n102", "n2012", "i", "f", "s", "s5", "b", "dt", "tm", "ts", "tz", "bin", "v", "o", "ar"]
QUERY = set(COLS) | {"two", "dup", "count", "litstr", "litsemi", "param", "random", "sample", "starzz"}
NOPREC = {"count", "random", "ins", "upd", "del", "merge"}      # precision of counts / expressions: not fixed by the property
ALL = sorted(QUERY | {"ins", "upd", "del", "merge", "createt", "alter", "dropt", "createv", "createsc", "usesc", "usedb", "begin",
                      "commit", "rollback", "setv", "unsetv", "call", "truncate", "show_tables", "show_schemas", "describe_table"})
META = {"show_tables", "show_schemas", "describe_table"}


def sql_of(kind: str):
    if kind in COLS:
        return f"select {kind} from ty order by i", None
    return {
        "two": ("select n102, s from ty order by i", None),
        "dup": ("select i, s as i from ty order by 1", None),
        "count": ("select count(*) as c from ty", None),
        "starzz": ("select * from zz", None),
        "litstr": ("select 'x' as a", None),
        "litsemi": ("select 'first; second' as a", None),
        "param": ("select s from ty where s = %s", ("x",)),
        "random": ("select random(42) as r", None),
        "sample": ("select i from ty sample (50) seed (7)", None),
        "ins": ("insert into ty (i) values (5)", None),
        "upd": ("update ty set i = 1 where 1 = 0", None),
        "del": ("delete from ty where 1 = 0", None),
        "merge": ("merge into zz using ty on zz.i = ty.i when not matched then insert (i) values (ty.i)", None),
        "createt": ("create or replace table zz2 (i int)", None),
        "alter": ("alter table zz add column if not exists j int", None),
        "dropt": ("drop table if exists zz3", None),
        "createv": ("create or replace view vv as select 1 as x", None),
        "createsc": ("create schema if not exists s9", None),
        "usesc": ("use schema s1", None),
        "usedb": ("use database db1", None),
        "begin": ("begin", None),
        "commit": ("commit", None),
        "rollback": ("rollback", None),
        "setv": ("set v = 1", None),
        "unsetv": ("unset v", None),
        "call": ("call some_procedure()", None),
        "truncate": ("truncate table ty", None),
        "show_tables": ("show tables", None),
        "show_schemas": ("show schemas", None),
        "describe_table": ("describe table ty", None),
    }[kind]


def entries(desc, kind):
    out = []
    for m in desc:
        name = "SETSEED" if m.name.lower().startswith("setseed(") else m.name
        code = m.type_code
        if kind in ("o", "ar") and code in (5, 9, 10):
            code = -2
        prec = -1 if m.precision is None else m.precision
        if kind in NOPREC:
            prec = -2
        out.append([name, code, prec, -1 if m.scale is None else m.scale])
    return out


_FS = None
_N = 0


class C06(Prop):
    id = "C06"
    noise_sample = 300
    gen_module = "FsDescrGen"
    judge_module = "FsDescrJudge"
    assumptions = [
        "table ty with one column per supported type (NUMBER, NUMBER(10,0), NUMBER(10,2), NUMBER(20,12), INT, FLOAT, VARCHAR, VARCHAR(5), BOOLEAN, DATE, TIME, "
        "TIMESTAMP_NTZ, TIMESTAMP_TZ, BINARY, VARIANT, OBJECT, ARRAY) and one row; 43 statement kinds; description read at every point of the fetch sequence",
        "precision of count / expression columns, the type codes of OBJECT / ARRAY and the column details of SHOW / DESCRIBE results are not "
        "determined by the property: only structure (one entry per column, names = DictCursor keys) is judged there",
        "internal_size of VARCHAR(n) is not judged (a documented TODO of the project)",
    ]

    def consts(self, tier):
        return {"KindsUsed": set(ALL)}

    def model_checks(self, tier):
        c = {"KindsUsed": set(ALL), "Devs": set(), "Depth": 6, "MaxFails": 0, "SampleOneIn": 1}
        out = [dict(name="mc_ideal", consts=c, invariants=["StepInv"], constraint="Bound", view="ViewSt")]
        for d in ("C06.fixed_scale0_fetched_as_decimal", "C06.describe_non_query_unsupported", "C06.seeded_random_describes_setseed",
                  "C06.description_unavailable"):
            out.append(dict(name="mc_" + d.split(".")[1], consts=dict(c, Devs={d}, Depth=4), invariants=["StepInv"], constraint="Bound",
                            view="ViewSt", devs=[d]))
        return out

    def generations(self, tier, seed):
        big = tier == "thorough"
        base = {"KindsUsed": set(ALL), "Devs": set(), "MaxFails": 0, "SampleOneIn": 1}
        return [
            dict(name="edges", mode="edges", sample=None if big else 5000, consts=dict(base, Depth=5)),
            # same statement repeated with DDL / other statements in between (description caches)
            dict(name="paths", mode="paths", sample=None if big else 4000, consts=dict(base, KindsUsed={"starzz", "alter"}, Depth=7 if big else 6)),
            dict(name="paths_fetch", mode="paths", sample=None if big else 4000, consts=dict(base, KindsUsed={"i", "ins"}, Depth=7 if big else 6)),
            dict(name="walks", mode="walks", depth=12, num=3000 if big else 500, consts=dict(base, Depth=12)),
        ]

    def nontrivial(self, ops):
        return any(o["k"] in ("descr", "describe") for o in ops) and any(o["k"] == "exec" for o in ops)

    def drive(self, ops, rng):
        from snowflake.connector.cursor import DictCursor

        import fakesnow

        global _FS, _N
        if _FS is None:
            _FS = fakesnow.instance.FakeSnow(nop_regexes=["^call"])
        fs = _FS
        _N += 1
        sc = f"S{_N}"
        conn = fs.connect("DB1", sc)
        setup = conn.cursor()
        setup.execute("create table ty (n number, n10 number(10,0), n102 number(10,2), n2012 number(20,12), i int, f float, s varchar, s5 varchar(5), b boolean, "
                      "dt date, tm time, ts timestamp_ntz, tz timestamp_tz, bin binary, v variant, o object, ar array)")
        setup.execute("insert into ty select 1, 2, 3.25, 7.000000000125, 4, 1.5, 'x', 'y', true, '2024-01-02'::date, '01:02:03'::time, "
                      "'2024-01-02 03:04:05'::timestamp_ntz, '2024-01-02 03:04:05+00:00'::timestamp_tz, 'ab'::binary, "
                      "parse_json('{\"a\":1}'), object_construct('k',1), array_construct(1,2)")
        setup.execute("create table zz (i int)")
        raw = fs.duck_conn.cursor()
        cur = conn.cursor(DictCursor)
        last = None
        intx = False
        ev = []
        for op in ops:
            k = op["k"]
            obs = {"res": "ok", "d": [], "struct": "na", "py": []}
            try:
                if k == "exec":
                    last = op["kind"]
                    sql, params = sql_of(last)
                    sql = sql.replace("use schema s1", f"use schema {sc}")
                    if last == "begin" and intx:
                        conn.cursor().execute("rollback")      # nested BEGIN is outside the property (see C13)
                    intx = (last == "begin") or (intx and last not in ("commit", "rollback"))
                    cur.execute(sql, params)
                    if last == "usedb":      # keep the session usable: USE DATABASE loses the schema (recorded under C03)
                        conn.cursor().execute(f"use schema {sc}")
                    try:
                        d = cur.description
                    except Exception:
                        obs["res"] = "exc"
                    else:
                        if d is None:
                            obs["res"] = "none"
                        else:
                            obs["d"] = [] if last in META else entries(d, last)
                            # structure: one entry per column of the rows, names = DictCursor keys (peek without consuming: same SQL on a twin cursor)
                            twin = conn.cursor(DictCursor)
                            if last in ("ins", "merge", "begin", "truncate", "createt", "dropt", "usedb"):
                                obs["struct"] = "ok" if len(d) >= 1 else "bad"
                            else:
                                twin.execute(sql, params)
                                rows = twin.fetchall()
                                if last == "usedb":
                                    conn.cursor().execute(f"use schema {sc}")
                                if rows and last == "dup":
                                    # repeated names: the keys are the distinct names, a tuple row has one element per entry
                                    t2 = conn.cursor()
                                    width = len(t2.execute(sql, params).fetchall()[0])
                                    names = [m.name for m in d]
                                    obs["struct"] = "ok" if list(rows[0].keys()) == list(dict.fromkeys(names)) and width == len(d) else "bad"
                                elif rows:
                                    keys = list(rows[0].keys())
                                    obs["struct"] = "ok" if keys == [m.name for m in d] else "bad"
                                else:
                                    obs["struct"] = "ok"
                elif k == "descr":
                    try:
                        d = cur.description
                    except Exception:
                        obs["res"] = "exc"
                    else:
                        if d is None:
                            obs["res"] = "none"
                        else:
                            obs["d"] = [] if last in META else entries(d, last)
                            obs["struct"] = "ok" if not (d and d[0].name.lower().startswith("setseed(")) else "bad"
                elif k == "fetch":
                    try:
                        row = cur.fetchone()
                    except TypeError:
                        obs["res"] = "exc"
                    else:
                        if row is None:
                            obs["res"] = "none"
                        elif last not in META and last not in ("merge", "dup"):
                            obs["py"] = [type(v).__name__ for v in row.values() if v is not None]
                elif k == "describe":
                    sql, params = sql_of(op["kind"])
                    probe = conn.cursor()
                    try:
                        d = probe.describe(sql, params)
                    except Exception:
                        obs["res"] = "exc"
                    else:
                        obs["d"] = [] if op["kind"] in META else entries(d, op["kind"])
            except Exception as e:
                obs["res"] = "exc"
            try:   # through the same connection: it may hold uncommitted work
                obs["data"] = conn.cursor().execute(f"select count(*) from db1.{sc}.ty").fetchall()[0][0]
            except Exception:
                obs["data"] = -1
            ev.append({"op": op, "obs": obs})
        try:
            conn.rollback()
        except Exception:
            pass
        raw.execute(f"drop schema if exists DB1.{sc} cascade")
        return ev


PROP = C06
