"""C05 - fetch calls hand out every result row once, in order, at full width (spec: FsCursor)."""
from __future__ import annotations

import datetime
import math

from harness.core import Prop

OFF = 10000          # an int cell of row p (1 <= p < OFF) in column c holds p + OFF * (c - 1)
SRC_ROWS = 8000      # rows of the source table: the largest result a behaviour may ask for
SHAPES = {
    # shape -> list of (select expression, kind); cell (p, c) is distinguishable from every other cell
    "one": [("id as a", "int")],
    "three": [("id as a", "int"), (f"id + {OFF} as b", "int"), (f"id + {2 * OFF} as c", "int")],
    "dup": [("id as a", "int"), (f"id + {OFF} as a", "int")],
    "aliasdup": [("id as x", "int"), (f"id + {OFF} as b", "int"), (f"id + {2 * OFF} as x", "int")],
    "quoted": [('id as "My Col"', "int"), (f'id + {OFF} as "a"', "int")],
    "dml": [("<affected count>", "count")],
    "star0": [("id", "int"), ("name", "int")], "star1": [("id", "int"), ("label", "int"), ("score", "int")],
    "types": [
        ("id", "int"),
        ("'r' || id::varchar as s", "str"),
        ("id + 0.5::float as f", "float"),
        ("(id % 2 = 0) as b", "bool"),
        ("dateadd(day, id, '2024-01-01'::date) as d", "date"),
        ("dateadd(second, id, '1969-12-31 23:59:50'::timestamp_ntz) as ts", "ts"),
        ("null::varchar as n", "null"),
    ],
}


def cell(kind: str, p: int, c: int):
    off = OFF * (c - 1)
    if kind == "int":
        return p + off
    if kind == "str":
        return f"r{p}"
    if kind == "float":
        return p + 0.5
    if kind == "bool":
        return p % 2 == 0
    if kind == "date":
        return datetime.date(2024, 1, 1) + datetime.timedelta(days=p)
    if kind == "ts":
        return datetime.datetime(1969, 12, 31, 23, 59, 50) + datetime.timedelta(seconds=p)
    return None


def same(a, b) -> bool:
    if a is None or b is None:
        return a is None and b is None
    if isinstance(a, float) and isinstance(b, float) and math.isnan(a) and math.isnan(b):
        return True
    if isinstance(a, bool) != isinstance(b, bool):
        return False
    try:
        return bool(a == b)
    except Exception:
        return False


_AFFECTED = [0]      # the count the last DML statement of the running behaviour must report


def decode_row(shape: str, values: list) -> tuple[int, list[int]]:
    """(position, column index per delivered value); 0 where a value is not recognisable."""
    if shape == "dml":
        good = [same(_norm(v), _AFFECTED[0]) and not isinstance(v, bool) for v in values]
        return (1 if any(good) else 0), [1 if g else 0 for g in good]
    spec = SHAPES[shape]
    pos = 0
    for v in values:  # the position is recoverable from any int cell
        if isinstance(v, int) and not isinstance(v, bool) or hasattr(v, "__int__") and not isinstance(v, (bool, float, str)):
            try:
                pos = int(v) % OFF
                break
            except Exception:
                pass
    cols = []
    for j, v in enumerate(values):
        cands = [c for c in range(1, len(spec) + 1) if same(_norm(v), cell(spec[c - 1][1], pos, c))]
        if (j + 1) in cands:
            cols.append(j + 1)
        elif cands:
            cols.append(cands[0])
        else:
            cols.append(0)
    return pos, cols


def _norm(v):
    # numpy / pandas / Decimal scalars -> plain python
    import decimal

    if v is None:
        return None
    t = type(v).__module__
    if isinstance(v, decimal.Decimal):
        return int(v) if v == v.to_integral_value() else float(v)
    if t.startswith("numpy") or t.startswith("pandas"):
        try:
            import pandas as pd

            if v is pd.NaT or (isinstance(v, float) and math.isnan(v)):
                return None
            if isinstance(v, pd.Timestamp):
                return v.to_pydatetime()
        except Exception:
            pass
        if hasattr(v, "item"):
            return _norm(v.item())
    if isinstance(v, float) and math.isnan(v):
        return None
    return v


def runs(pos: list[int]) -> list[list[int]]:
    """the positions as maximal runs [first, last] of consecutive positions (loses nothing; FsCursorJudge expands it)"""
    out: list[list[int]] = []
    for p in pos:
        if out and p == out[-1][1] + 1:
            out[-1][1] = p
        else:
            out.append([p, p])
    return out


def rows_obs(shape: str, rows: list, names: list[str], rc) -> dict:
    pos, colsets = [], []
    for r in rows:
        p, cols = decode_row(shape, list(r))
        pos.append(p)
        colsets.append(cols)
    cols = colsets[0] if colsets and all(c == colsets[0] for c in colsets) else ([-1] if colsets else [])
    return {"res": "rows", "rows": runs(pos), "cols": cols, "names": names, "rc": -1 if rc is None else int(rc)}


_FS = None
BIG = 997            # scale of the large results (see FsCursor!Scale)
ALLOPS = {"open", "exec", "dml", "reshape", "execfail", "one", "many", "manydef", "all", "pandas", "asz", "descr"}
NORESHAPE = ALLOPS - {"reshape"}


class C05(Prop):
    id = "C05"
    noise_sample = 400
    gen_module = "FsCursorGen"
    judge_module = "FsCursorJudge"
    assumptions = [
        "bounds: n <= MaxN * Scale rows, fetchmany sizes <= MaxK * Scale, arraysize <= MaxA * Scale (Scale 1, and 997 for results "
        "of thousands of rows), six result shapes "
        "(1/3/7 columns, repeated names, aliased repeats, quoted names, seven value types incl. NULL)",
        "a failed execute may keep or drop the previous result set (the property is silent)",
    ]
    ACTIONS = ["Open", "Execute", "ExecuteFail", "FetchOne", "FetchMany", "FetchManyDefault", "FetchAll",
               "SetArraysize", "FetchPandasAll", "ReadDescription"]

    def consts(self, tier):
        return {"MaxN": 3, "MaxK": 4, "MaxA": 2, "ShapesUsed": {"three", "dup"}, "ViaUsed": {"x"}, "OpsUsed": ALLOPS, "MinN": 0, "Scale": 1}

    def model_checks(self, tier):
        big = tier == "thorough"
        c = {"MaxN": 4 if big else 3, "MaxK": 5 if big else 4, "MaxA": 3 if big else 2,
             "ShapesUsed": {"one", "three", "dup", "aliasdup", "quoted", "types"}, "ViaUsed": {"x", "s1", "s2"}, "Devs": set(),
             "Depth": 12 if big else 10, "OpsUsed": NORESHAPE, "MinN": 0, "Scale": 1}
        inv = ["StepInv", "ExactlyOnce", "Drained", "NoResult", "Replace"]
        out = [dict(name="mc_ideal", consts=c, invariants=inv, properties=["Monotone"], constraint="Bound",
                    view="ViewSt", coverage=True, actions=self.ACTIONS)]
        # the same invariants on results of thousands of rows (n, fetch sizes and arraysize are multiples of BIG; fetchone = 1 row)
        cb = dict(c, Scale=BIG, MaxN=2, MaxK=2, MaxA=2, ShapesUsed={"three", "aliasdup"}, ViaUsed={"x"}, Depth=6 if big else 5)
        out.append(dict(name="mc_ideal_big", consts=cb, invariants=inv, properties=["Monotone"], constraint="Bound", view="ViewSt"))
        cd = dict(c, Devs={"C05.dup_names_tuple_width"}, ShapesUsed={"dup"}, MaxN=2, Depth=4)
        out.append(dict(name="mc_dev_dup", consts=cd, invariants=inv, constraint="Bound", view="ViewSt",
                        devs=["C05.dup_names_tuple_width"], workers=1))
        cs = dict(c, Devs={"C05.description_follows_current_table"}, ShapesUsed={"star"}, MaxN=1, Depth=5, OpsUsed={"open", "exec", "reshape", "descr"})
        out.append(dict(name="mc_dev_descr", consts=cs, invariants=inv + ["DescrOfResult"], constraint="Bound", view="ViewSt",
                        devs=["C05.description_follows_current_table"], workers=1))
        return out

    def generations(self, tier, seed):
        big = tier == "thorough"
        all_shapes = {"one", "three", "dup", "aliasdup", "quoted", "types"}
        base = {"Devs": set(), "ViaUsed": {"x"}, "OpsUsed": NORESHAPE, "MinN": 0, "Scale": 1}
        fetching = {"open", "exec", "one", "many", "manydef", "all", "pandas", "asz"}
        g = [
            # dense small vocabularies (all sequences): a failing execute between fetches; the same SELECT * text over a table whose
            # columns change in between, on tuple and dict cursors
            dict(name="paths_fail", mode="paths",
                 consts=dict(base, MinN=2, MaxN=2, MaxK=1, MaxA=1, ShapesUsed={"three"}, OpsUsed={"open", "exec", "execfail", "one", "all"}, Depth=8 if big else 7)),
            dict(name="paths_star", mode="paths",
                 consts=dict(base, MinN=2, MaxN=2, MaxK=1, MaxA=1, ShapesUsed={"star"}, OpsUsed={"open", "exec", "reshape", "one"}, Depth=9 if big else 8)),
            # arraysize set before / between executes and fetchone (rows an implementation converts ahead of time must not outlive
            # their result set): all sequences
            dict(name="paths_asz", mode="paths",
                 consts=dict(base, MinN=3, MaxN=3, MaxK=1, MaxA=2, ShapesUsed={"three"}, OpsUsed={"open", "exec", "asz", "one", "all"}, Depth=8 if big else 7)),
            # every transition of the state graph, one shortest path each
            dict(name="edges", mode="edges", sample=None if big else 5000,
                 consts=dict(base, MaxN=3, MaxK=4, MaxA=2, ShapesUsed=all_shapes if big else {"three", "aliasdup", "types"}, Depth=7,
                             ViaUsed={"x", "s1", "s2"} if big else {"x", "s1"})),
            # every operation sequence up to a small length (path-dependent bugs)
            dict(name="paths", mode="paths", sample=None if big else 4000,
                 consts=dict(base, MaxN=3 if big else 2, MaxK=3 if big else 2, MaxA=2, ShapesUsed={"three"}, Depth=6 if big else 5)),
            dict(name="paths_dict", mode="paths", sample=None if big else 4000,
                 consts=dict(base, MaxN=2, MaxK=2, MaxA=2, ShapesUsed={"aliasdup"}, Depth=5)),
            # long random walks
            dict(name="walks", mode="walks", depth=14, num=3000 if big else 500,
                 consts=dict(base, MaxN=4, MaxK=5, MaxA=3, ShapesUsed=all_shapes | {"star"}, Depth=14, ViaUsed={"x", "s1", "s2"}, OpsUsed=ALLOPS)),
        ]
        # large results (n, fetch sizes, arraysize = multiples of a scale that is not a round number; fetchone = one row): the
        # same abstract behaviours, concretised so that single fetches span and start at every offset of whatever batches /
        # chunks / windows the implementation cuts a result into
        g += [
            dict(name="paths_big", mode="paths", sample=None if big else 200,
                 consts=dict(base, Scale=BIG, MinN=2, MaxN=3, MaxK=2, MaxA=2, ShapesUsed={"three"}, OpsUsed=fetching, Depth=5)),
            dict(name="walks_big", mode="walks", next="NextWalkByCall", depth=12, num=800 if big else 150, seed_offset=2,
                 consts=dict(base, Scale=BIG, MaxN=4, MaxK=3, MaxA=2, ShapesUsed=all_shapes | {"star"}, Depth=12, ViaUsed={"x", "s1", "s2"}, OpsUsed=ALLOPS)),
        ]
        if big:
            g.append(dict(name="walks_big2", mode="walks", next="NextWalkByCall", depth=12, num=400, seed_offset=3,
                          consts=dict(base, Scale=1500, MaxN=4, MaxK=3, MaxA=2, ShapesUsed=all_shapes | {"star"}, Depth=12, ViaUsed={"x", "s1", "s2"}, OpsUsed=ALLOPS)))
            g.append(dict(name="walks_long", mode="walks", depth=40, num=1500, seed_offset=1,
                          consts=dict(base, MaxN=6, MaxK=7, MaxA=4, ShapesUsed=all_shapes | {"star"}, Depth=40, ViaUsed={"x", "s1", "s2"}, OpsUsed=ALLOPS)))
        return g

    def nontrivial(self, ops):
        return sum(1 for o in ops if o["k"] in ("one", "many", "manydef", "all", "pandas")) >= 2

    # ------------------------------------------------------------------------------------------------ driver
    def drive(self, ops, rng):
        import snowflake.connector
        from snowflake.connector.cursor import DictCursor

        import fakesnow

        # one instance per worker process (the fetch protocol is per cursor), a fresh connection per behaviour
        global _FS
        if _FS is None:
            _FS = fakesnow.instance.FakeSnow()
            setup = _FS.connect("DB1", "S1").cursor()
            setup.execute("create table src (id int)")
            setup.execute("create table scr (id int)")
            setup.execute("insert into src values " + ",".join(f"({i})" for i in range(1, 101)))
            setup.execute(f"insert into src select a.id + 100 * b.id from src a, src b where b.id <= {SRC_ROWS // 100 - 1}")
        conn = _FS.connect("DB1", "S1")
        cur = None
        lay = [0, False]          # layout of shp, and whether shp has been made for this behaviour

        def make_shp():
            c2 = conn.cursor()
            if lay[0] == 0:
                c2.execute(f"create or replace table shp as select id, id + {OFF} as name from src")
            else:
                c2.execute(f"create or replace table shp as select id, id + {OFF} as label, id + {2 * OFF} as score from src")
            lay[1] = True

        shape = "one"
        isdict = False
        ev = []

        def rc():
            r = cur.rowcount
            return -1 if r is None else int(r)

        def plain(res):
            return {"res": res, "rows": [], "cols": [], "names": [], "rc": rc()}

        for op in ops:
            k = op["k"]
            if k == "exec" and not 0 <= int(op["n"]) <= SRC_ROWS:      # a generator asking for more than the driver can build
                raise ValueError(f"the driver's source table has {SRC_ROWS} rows, asked for {op['n']}")
            try:
                if k == "open":
                    isdict = bool(op["dict"])
                    cur = conn.cursor(DictCursor) if isdict else conn.cursor()
                    obs = plain("ok")
                elif k == "reshape":
                    lay[0] = 1 - lay[0]
                    make_shp()
                    obs = plain("ok")
                elif k == "exec":
                    shape = op["sh"]
                    if shape == "star":
                        if not lay[1]:
                            make_shp()
                        shape = f"star{lay[0]}"
                        sql = f"select * from shp where id <= {int(op['n'])} order by id"      # the same text in both layouts
                    else:
                        sel = ", ".join(e for e, _ in SHAPES[shape])
                        sql = f"select {sel} from src where id <= {int(op['n'])} order by id"
                    via = op.get("via", "x")
                    if via == "x":
                        cur.execute(sql)
                    else:
                        # the statement as one of two in a script: each statement has its own cursor and result
                        other = "select 7 as z from src where id <= 2"
                        script = f"{sql}; {other}" if via == "s1" else f"{other}; {sql}"
                        kw = {"cursor_class": DictCursor} if isdict else {}
                        curs = list(conn.execute_string(script, **kw))
                        cur = curs[0] if via == "s1" else curs[-1]
                    obs = plain("ok")
                elif k == "dml":
                    shape = "dml"
                    _AFFECTED[0] = int(op["a"])
                    cur.execute(f"insert into scr select id from src where id <= {int(op['a'])}")
                    obs = plain("ok")
                elif k == "execfail":
                    which = rng.choice(["select * from no_such_table", "select no_such_col from src", "selec 1"])
                    try:
                        cur.execute(which)
                        obs = plain("ok")
                    except Exception:
                        obs = plain("err")
                elif k == "asz":
                    cur.arraysize = int(op["a"])
                    obs = plain("ok")
                elif k in ("one", "many", "manydef", "all"):
                    try:
                        if k == "one":
                            r = cur.fetchone()
                            rows = None if r is None else [r]
                        elif k == "many":
                            rows = cur.fetchmany(int(op["size"]))
                        elif k == "manydef":
                            rows = cur.fetchmany()
                        else:
                            rows = cur.fetchall()
                    except TypeError:
                        obs = plain("noresult")
                    else:
                        if rows is None:
                            obs = plain("none")
                        elif isdict:
                            keysets = [list(r.keys()) for r in rows]
                            names = keysets[0] if keysets and all(x == keysets[0] for x in keysets) else (["?"] if keysets else [])
                            obs = rows_obs(shape, [list(r.values()) for r in rows], names, cur.rowcount)
                        else:
                            if not all(isinstance(r, tuple) for r in rows):
                                obs = plain("badrowtype")
                            else:
                                obs = rows_obs(shape, rows, [], cur.rowcount)
                elif k == "pandas":
                    try:
                        df = cur.fetch_pandas_all()
                    except snowflake.connector.NotSupportedError:
                        obs = plain("noresult")
                    else:
                        # row by row, every cell as the frame's column holds it (no row-wise upcasting across columns)
                        rows = [list(r) for r in df.itertuples(index=False, name=None)]
                        obs = rows_obs(shape, rows, [str(c) for c in df.columns], cur.rowcount)
                elif k == "descr":
                    d = cur.description
                    obs = {"res": "descr", "rows": [], "cols": [], "names": [m.name for m in d], "rc": rc()}
                else:
                    raise ValueError(k)
            except Exception as e:  # anything the spec has no word for
                obs = {"res": "exc:" + type(e).__name__, "rows": [], "cols": [], "names": [], "rc": -2}
            ev.append({"op": op, "obs": obs})
        return ev


PROP = C05
