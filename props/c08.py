"""C08 - bound parameters arrive as data, whatever they contain (spec: FsParams)."""
from __future__ import annotations

import datetime
import decimal
import os

from harness.core import Prop

STR = {
    "plain": ["abc", "hello world"], "quote": ["it's", "''", "'; --"], "dquote": ['say "hi"'], "bslash": ["a\\b", "\\", "\\'", "c:\\n"],
    "newline": ["a\nb", "\r\n", "tab\there"], "percent": ["100%", "%", "%%"], "pct_s": ["%s", "x %s y"], "pct_named": ["%(a)s", "%(v)s"],
    "dollar": ["$x", "$v and $$"], "qmarkch": ["?", "a ? b"], "semi": ["a;b", ";"], "dash": ["a--b", "-- c"], "block": ["a/*b*/c", "/*"],
    "inject": ["x'); drop table b; --", "1 or 1=1", "'); insert into b values ('z'); --"], "unicode": ["é😀", "日本語", "\u202e"],
    "empty": [""], "nul": ["a\x00b"],
}
OTHER = {
    "int": ([0, 1, 7, 42], "int"), "bigint": ([2**62, 9223372036854775807], "bigint"), "negint": ([-1, -(2**40)], "bigint"),
    "float": ([1.5, -0.25, 1e300, 1.0, 0.0], "double"), "decimal": ([decimal.Decimal("12345.67890"), decimal.Decimal("-0.00001")], "decimal(20,5)"),
    "bool": ([True, False], "boolean"), "none": ([None], "varchar"), "date": ([datetime.date(2024, 2, 29), datetime.date(1969, 12, 31)], "date"),
    "datetime": ([datetime.datetime(2024, 1, 2, 3, 4, 5, 123456), datetime.datetime(1969, 12, 31, 23, 59, 59)], "timestamp"),
    "time": ([datetime.time(1, 2, 3), datetime.time(23, 59, 59)], "time"),
}
ALLC = sorted(set(STR) | set(OTHER))
MIXED = {"mix_none_first": ([None, "abc", "it's"], "varchar"), "mix_int_float": ([1, 2.5, -3.75], "double"), "mix_str_none": (["a", None, "b\\c"], "varchar")}


def same(a, b) -> bool:
    if a is None or b is None:
        return a is None and b is None
    if isinstance(a, bool) or isinstance(b, bool):
        return isinstance(a, bool) and isinstance(b, bool) and a == b
    if isinstance(a, (int, decimal.Decimal)) and isinstance(b, (int, decimal.Decimal)):
        return decimal.Decimal(a) == decimal.Decimal(b)
    return type(a) is type(b) and a == b


def ph(style, form, i=0):
    if style == "qmark":
        return "?"
    return f"%(p{i})s" if form in ("dict", "dictre") else "%s"


def pack(style, form, vals):
    if form in ("dict", "dictre"):
        return {f"p{i}": v for i, v in enumerate(vals)}
    return tuple(vals) if style != "qmark" else list(vals)


_N = 0


class C08(Prop):
    id = "C08"
    gen_module = "FsParamsGen"
    judge_module = "FsParamsJudge"
    assumptions = [
        "27 value classes (17 string classes incl. quotes, backslashes, newlines, %, %s, %(a)s, $x, ?, ;, comment markers, injection "
        "attempts, unicode, empty, NUL; int, bigint, negative, float, Decimal, bool, None, date, datetime, time) x 6 positions "
        "(VALUES, WHERE, IN list, one placeholder bound to a list, select list, LIKE) x paramstyles (pyformat sequence / dict, format, qmark, executemany) x same / fresh cursor",
        "each class is concretised from a fixed edge list, one member chosen by seed per case: inside a class coverage is sampled",
        "the equality verdict ('same') is computed by the driver on the concrete Python value; the specification states what must hold",
    ]

    def consts(self, tier):
        return {"ClassesUsed": set(ALLC)}

    def model_checks(self, tier):
        c = {"ClassesUsed": set(ALLC), "Devs": set(), "Depth": 5, "MaxFails": 0, "SampleOneIn": 1}
        return [dict(name="mc_ideal", consts=c, invariants=["StepInv"], constraint="Bound", view="ViewSt"),
                dict(name="mc_nul", consts=dict(c, Devs={"C08.nul_character_rejected"}, ClassesUsed={"nul"}, Depth=4), invariants=["StepInv"],
                     constraint="Bound", view="ViewSt", devs=["C08.nul_character_rejected"]),
                dict(name="mc_qmark_merge", consts=dict(c, Devs={"C08.qmark_merge_rejected"}, ClassesUsed={"plain"}, Depth=4), invariants=["StepInv"],
                     constraint="Bound", view="ViewSt", devs=["C08.qmark_merge_rejected"])]

    def generations(self, tier, seed):
        big = tier == "thorough"
        base = {"ClassesUsed": set(ALLC), "Devs": set(), "MaxFails": 0, "SampleOneIn": 1}
        return [
            dict(name="edges", mode="edges", consts=dict(base, Depth=5)),
            # sequences of binds on one cursor over value classes whose members compare equal across types (1, True, 1.0)
            dict(name="paths", mode="paths", sample=None if big else 4000,
                 consts=dict(base, ClassesUsed={"int", "bool", "float"}, Depth=5 if big else 4)),
            dict(name="walks", mode="walks", depth=8, num=3000 if big else 300, consts=dict(base, Depth=8)),
        ]

    def nontrivial(self, ops):
        return any(o["k"] == "bind" and o["vc"] not in ("plain", "int") for o in ops)

    def drive(self, ops, rng):
        import snowflake.connector

        import fakesnow

        global _N
        saved = snowflake.connector.paramstyle
        fs = fakesnow.instance.FakeSnow()
        admin_style = None
        conn = cur = raw = None
        ev = []
        try:
            for op in ops:
                k = op["k"]
                obs = {"res": "ok", "same": True, "rows": 0, "others": "ok"}
                if k == "setglobal":
                    snowflake.connector.paramstyle = op["style"]
                elif k == "connect":
                    conn = fs.connect("DB1", "S1")
                    cur = conn.cursor()
                    raw = fs.duck_conn.cursor()
                    raw.execute("create table if not exists DB1.S1.B (s varchar)")
                    raw.execute("delete from DB1.S1.B")
                    raw.execute("insert into DB1.S1.B values ('keep')")
                elif k == "bind":
                    _N += 1
                    obs = self._bind(op, conn, cur if op["cur"] == "same" else conn.cursor(), raw, rng, f"P{_N}")
                ev.append({"op": op, "obs": obs})
        finally:
            snowflake.connector.paramstyle = saved
            try:
                fs.duck_conn.close()
            except Exception:
                pass
        return ev

    def _bind(self, op, conn, cur, raw, rng, tname):
        style, form, pos, vc = op["style"], op["form"], op["pos"], op["vc"]
        if vc in MIXED:
            vals, ctype = MIXED[vc]
        elif vc in STR:
            vals, ctype = STR[vc], "varchar"
        else:
            vals, ctype = OTHER[vc]

        def P(vals_):
            d = pack(style, form, vals_)
            if form == "dictre":
                # the caller's dict object has already served an earlier execute
                cur.execute("select " + ", ".join(ph(style, form, i) for i in range(len(vals_))), d).fetchall()
            return d

        v = rng.choice(vals)
        fq = f"DB1.S1.{tname}"
        raw.execute(f"create table {fq} (v {ctype})")
        obs = {"res": "ok", "same": True, "rows": 0, "others": "ok"}
        try:
            if form == "many":
                seq = list(vals) if vc in MIXED else [rng.choice(vals) for _ in range(3)]
                cur.executemany(f"insert into {tname} (v) values ({ph(style, 'seq')})", [pack(style, "seq", [x]) for x in seq])
                back = [r[0] for r in raw.execute(f"select v from {fq}").fetchall()]
                if vc in MIXED:      # one column for values of several Python types: compared by value
                    obs["same"] = len(back) == 3 and sorted(map(repr, back)) == sorted(repr(float(x) if isinstance(x, (int, float)) and ctype == "double" else x) for x in seq)
                else:
                    obs["same"] = len(back) == 3 and all(any(same(x, b) for b in back) for x in seq)
            elif pos == "values":
                cur.execute(f"insert into {tname} (v) values ({ph(style, form)})", P([v]))
                back = [r[0] for r in conn.cursor().execute(f"select v from {tname}").fetchall()]
                obs["same"] = len(back) == 1 and same(v, back[0])
            else:
                # the row is written through the raw engine cursor (prepared statement), the bound value is used to find it again
                raw.execute(f"insert into {fq} values (?)", [v])
                if pos == "where":
                    if v is None:
                        got = cur.execute(f"select count(*) from {tname} where v is not distinct from {ph(style, form)}", P([v])).fetchall()
                    else:
                        got = cur.execute(f"select count(*) from {tname} where v = {ph(style, form)}", P([v])).fetchall()
                    obs["same"] = got == [(1,)]
                elif pos == "inlist":
                    other = rng.choice(vals)
                    got = cur.execute(f"select count(*) from {tname} where v in ({ph(style, form, 0)}, {ph(style, form, 1)})",
                                      P([other, v])).fetchall()
                    obs["same"] = got == [(1 if v is not None else 0,)]
                elif pos == "listparam":
                    other = rng.choice(vals)
                    got = cur.execute(f"select count(*) from {tname} where v in ({ph(style, form)})", P([[other, v]])).fetchall()
                    obs["same"] = got == [(1 if v is not None else 0,)]
                elif pos == "merge":
                    raw.execute(f"delete from {fq}")
                    # the bound value stands directly in the INSERT branch of the MERGE
                    cur.execute(f"merge into {tname} using (select 1 as k) s on {tname}.v is null and s.k = 0 "
                                f"when not matched then insert (v) values ({ph(style, form)})", P([v]))
                    back = [r[0] for r in raw.execute(f"select v from {fq}").fetchall()]
                    obs["same"] = len(back) == 1 and same(v, back[0])
                elif pos == "select":
                    got = cur.execute(f"select {ph(style, form)} as x", P([v])).fetchall()
                    # a bound value is written as the literal the connector renders for it: 1.5 is a NUMBER literal (Decimal),
                    # a Decimal / date / time is sent as a quoted string - equal to the literal, so equal as number or as text
                    b = got[0][0] if len(got) == 1 else None
                    num = isinstance(v, (int, float, decimal.Decimal)) and not isinstance(v, bool) and isinstance(b, (int, float, decimal.Decimal)) \
                        and float(b) == float(v)
                    obs["same"] = len(got) == 1 and (same(v, b) or num or (not isinstance(v, (str, bool, type(None))) and str(b) == str(v)))
                elif pos == "like":
                    if isinstance(v, str):
                        pat = v.replace("\\", "\\\\").replace("%", "\\%").replace("_", "\\_")
                        got = cur.execute(f"select count(*) from {tname} where v like {ph(style, form)} escape '\\\\'", P([pat])).fetchall()
                        obs["same"] = got == [(1,)]
            obs["rows"] = raw.execute(f"select count(*) from {fq}").fetchall()[0][0]
        except Exception:
            obs = {"res": "err", "same": False, "rows": 0, "others": "ok"}
        try:
            keep = raw.execute("select s from DB1.S1.B").fetchall()
            names = sorted(r[0] for r in raw.execute("select table_name from information_schema.tables where table_catalog='DB1' and table_schema='S1'").fetchall())
            if keep != [("keep",)] or tname not in names or "B" not in names:
                obs["others"] = "changed"
        except Exception:
            obs["others"] = "changed"
        raw.execute(f"drop table if exists {fq}")
        return obs


PROP = C08
