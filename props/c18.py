"""C18 - with db_path, committed state survives exit, exceptions and kills (spec: FsPersist).

The first process is a forked child that connects, runs the history and ends as the operation says (SIGKILL right before
engine call k through the engine proxy, clean exit of the patch block, exception); the parent then opens the path again."""
from __future__ import annotations

import json
import os
import shutil
import signal
import tempfile

from harness import engine
import re

from harness.core import Prop

SQL = {"ct1": "create table t1 (a varchar(5)) comment = 'c1'", "ct2": "create table t2 (a varchar)", "cr1": "create or replace table t1 (a varchar(5)) comment = 'c1'", "i1": "insert into t1 values ('x')",
       "i2": "insert into t2 values ('y')", "cm1": "comment on table t1 is 'c2'", "dt1": "drop table if exists t1", "begin": "begin",
       "commit": "commit", "rollback": "rollback"}
NOTAB = {"e": False, "n": 0, "c": "", "l": 0}
# how the behaviour spells the table t1 and its column: unquoted (folded to upper case), or double-quoted in lower case - the name
# under which the metadata is recorded is then not an upper-case one.  The driver's choice per behaviour, set before the fork.
_QUOTED = [False]


def sql_of(s: str) -> str:
    q = SQL[s]
    if _QUOTED[0]:
        q = re.sub(r"\bt1\b", '"t1"', q).replace("(a varchar(5))", '("a" varchar(5))')
    return q


def first_process(path, stmts, how, at, progress, dbname="D1"):
    """runs in the forked child"""
    import fakesnow

    def note(j):
        with open(progress, "w") as f:
            f.write(str(j))
            f.flush()
            os.fsync(f.fileno())

    note(-1)
    if how == "kill":
        fs = fakesnow.instance.FakeSnow(db_path=path)

        def before(n, sql, owner):
            if n == at:
                os.kill(os.getpid(), signal.SIGKILL)

        engine.install(fs, before)
        conn = fs.connect(dbname, "S1")
        note(0)
        cur = conn.cursor()
        for j, s in enumerate(stmts, 1):
            try:
                (cur if j % 2 else conn.cursor()).execute(sql_of(s))
            except Exception:
                pass
            note(j)
        os._exit(0)          # (ran out of engine calls before the kill point: ends abruptly after the last statement)
    elif how == "exc_again":
        import gc

        import snowflake.connector

        kept = []
        try:
            with fakesnow.patch(db_path=path):
                conn = snowflake.connector.connect(database=dbname, schema="S1")
                kept.append(conn)                # the application still holds the connection after the block failed
                note(0)
                for j, s in enumerate(stmts[:at], 1):
                    try:
                        conn.cursor().execute(sql_of(s))
                    except Exception:
                        pass
                    note(j)
                raise RuntimeError("body fails")
        except RuntimeError:
            pass
        with fakesnow.patch(db_path=path):
            conn2 = snowflake.connector.connect(database=dbname, schema="S1")
            for j, s in enumerate(stmts[at:], at + 1):
                try:
                    conn2.cursor().execute(sql_of(s))
                except Exception:
                    pass
                note(j)
        note(len(stmts))
        # what the end of the process does to objects that are still alive: they are destroyed
        del conn, conn2
        kept.clear()
        gc.collect()
        os._exit(0)
    else:
        import snowflake.connector

        try:
            with fakesnow.patch(db_path=path):
                conn = snowflake.connector.connect(database=dbname, schema="S1")
                note(0)
                cur = conn.cursor()
                for j, s in enumerate(stmts, 1):
                    try:
                        cur.execute(sql_of(s))
                    except Exception:
                        pass
                    note(j)
                if how == "exit_exception":
                    raise RuntimeError("body fails")
        except RuntimeError:
            pass
        os._exit(0)


def read_back(path, storage, dbname="D1"):
    import fakesnow

    fs = fakesnow.instance.FakeSnow(db_path=path if storage == "path" else None)
    rec = {"t1": dict(NOTAB), "t2": dict(NOTAB)}
    try:
        conn = fs.connect(dbname, "S1")
        cur = conn.cursor()
        for t in ("t1", "t2"):
            quoted = _QUOTED[0] and t == "t1"
            ref, stored, col = ('"t1"', "t1", "a") if quoted else (t, t.upper(), "A")
            try:
                n = cur.execute(f"select count(*) from {ref}").fetchall()[0][0]
            except Exception:
                continue
            c = cur.execute(f"select comment from information_schema.tables where table_schema = 'S1' and table_name = '{stored}'").fetchall()
            ln = cur.execute(f"select character_maximum_length from information_schema.columns where table_schema = 'S1' and table_name = '{stored}' and column_name = '{col}'").fetchall()
            rec[t] = {"e": True, "n": int(n), "c": (c[0][0] if c and c[0][0] is not None else ""), "l": int(ln[0][0]) if ln and ln[0][0] is not None else 0}
        rec["use"] = use_it(cur)
    except Exception as e:
        rec.setdefault("use", "bad:connect:" + type(e).__name__)
    finally:
        fs.duck_conn.close()
    return rec


def use_it(cur) -> str:
    """the second process goes on working with what it found"""
    try:
        cur.execute("create table vt_after (a varchar(7), b int) comment = 'cc'")
        cur.execute("insert into vt_after values ('x', 1)")
        c = cur.execute("select comment from information_schema.tables where table_schema = 'S1' and table_name = 'VT_AFTER'").fetchall()
        ln = cur.execute("select character_maximum_length from information_schema.columns where table_schema = 'S1' and table_name = 'VT_AFTER' and column_name = 'A'").fetchall()
        n = cur.execute("select count(*) from vt_after").fetchall()
        cur.execute("drop table vt_after")
        if c != [("cc",)] or [int(x[0]) for x in ln if x[0] is not None] != [7] or n != [(1,)]:
            return f"bad:metadata:{c}:{ln}:{n}"[:80]
        return "ok"
    except Exception as e:
        return "bad:" + type(e).__name__


class C18(Prop):
    id = "C18"
    gen_module = "FsPersistGen"
    judge_module = "FsPersistJudge"
    level = "fault_enumeration"
    assumptions = [
        "histories of up to MaxLen statements over CREATE TABLE with comment and VARCHAR length, CREATE TABLE, INSERT, COMMENT ON, DROP, BEGIN / "
        "COMMIT / ROLLBACK; end of the first process: clean exit of patch(), exception in the block, or SIGKILL right before engine call k for "
        "every k (kill points BETWEEN engine calls, incl. those inside connect and inside multi-step statements); a kill INSIDE one engine call "
        "is not enumerated (DuckDB's own WAL atomicity is trusted)",
        "the second process reconnects with create_database_on_connect=True to the same database and schema",
        "'done' (how many statements had returned) is reported by the first process through an fsync'd progress file",
    ]

    def consts(self, tier):
        return {"MaxLen": 4, "MaxKill": 40, "StmtsUsed": set(SQL), "HowUsed": {"kill", "exit_clean", "exit_exception", "exc_again"}}

    def model_checks(self, tier):
        c = {"MaxLen": 3, "MaxKill": 3, "StmtsUsed": {"ct1", "i1", "cm1", "begin", "commit", "rollback"}, "Devs": set(), "Depth": 2, "MaxFails": 0, "SampleOneIn": 1,
             "HowUsed": {"kill", "exit_clean", "exit_exception"}}
        return [dict(name="mc_ideal", consts=c, invariants=["StepInv"], constraint="Bound", view="ViewSt", timeout=1500),
                dict(name="mc_partial", consts=dict(c, Devs={"C18.create_table_metadata_not_atomic"}, MaxLen=1, StmtsUsed={"ct1"}), invariants=["StepInv"],
                     constraint="Bound", view="ViewSt", devs=["C18.create_table_metadata_not_atomic"])]

    def generations(self, tier, seed):
        big = tier == "thorough"
        base = {"Devs": set(), "MaxFails": 0, "SampleOneIn": 1, "Depth": 2, "HowUsed": {"kill"}}
        return [
            # every kill point of short histories
            dict(name="kills", mode="edges", sample=None if big else 700,
                 consts=dict(base, MaxLen=3 if not big else 4, MaxKill=30, StmtsUsed={"ct1", "i1", "cm1", "ct2", "dt1"})),
            # replacing a table that has rows, a changed comment and a declared length: every kill point of CREATE OR REPLACE
            dict(name="kills_replace", mode="edges", sample=None if big else 300,
                 consts=dict(base, MaxLen=4, MaxKill=30, StmtsUsed={"ct1", "i1", "cm1", "cr1"})),
            # transactions: kill points x BEGIN / COMMIT / ROLLBACK placements
            dict(name="kills_txn", mode="edges", emit="EmitSample", sample=3000 if big else 400, seed_offset=3,
                 consts=dict(base, MaxLen=4, MaxKill=30, StmtsUsed={"ct1", "i1", "cm1", "begin", "commit", "rollback"}, SampleOneIn=5 if big else 40)),
            # every way of leaving without a kill: clean exit and exception x transactions x metadata statements x spelling of the database name
            dict(name="exits", mode="edges", sample=None if big else 600,
                 consts=dict(base, MaxLen=4, MaxKill=1, StmtsUsed={"ct1", "i1", "cm1", "begin", "commit", "rollback"}, HowUsed={"exit_clean", "exit_exception"})),
            # a block left by an exception while its connection is still referenced, then a second block in the same process
            dict(name="again", mode="edges", sample=None if big else 300,
                 consts=dict(base, MaxLen=4 if big else 3, MaxKill=1, StmtsUsed={"ct1", "i1", "cm1", "begin", "commit"}, HowUsed={"exc_again"})),
        ]

    def nontrivial(self, ops):
        return len(ops[0]["stmts"]) >= 2

    def drive(self, ops, rng):
        ev = []
        for op in ops:
            _QUOTED[0] = rng.random() < 0.4
            op = dict(op, quoted=_QUOTED[0])
            tmp = tempfile.mkdtemp(prefix="fs18-")
            try:
                path = os.path.join(tmp, "dbs")
                os.makedirs(path)
                progress = os.path.join(tmp, "progress")
                if op["storage"] == "memory":
                    # an in-memory instance: nothing may appear on disk, a second instance sees nothing
                    import fakesnow

                    fs = fakesnow.instance.FakeSnow()
                    cur = fs.connect("D1", "S1").cursor()
                    for s in op["stmts"]:
                        try:
                            cur.execute(sql_of(s))
                        except Exception:
                            pass
                    rec = read_back(None, "memory")
                    use = rec.pop("use", "bad:none")
                    files = "some" if os.listdir(path) or [f for f in os.listdir(os.getcwd()) if f.endswith(".db")] else "none"
                    ev.append({"op": op, "obs": {"done": len(op["stmts"]), "rec": rec, "files": files, "use": use}})
                    fs.duck_conn.close()
                    continue
                pid = os.fork()
                if pid == 0:
                    try:
                        devnull = os.open(os.devnull, os.O_WRONLY)
                        os.dup2(devnull, 1)
                        os.dup2(devnull, 2)
                        first_process(path, op["stmts"], op["how"], op["at"], progress, "d1" if op["spell"].startswith("lower") else "D1")
                    finally:
                        os._exit(0)
                os.waitpid(pid, 0)
                done = int(open(progress).read().strip() or -1)
                rec = read_back(path, "path", "d1" if op["spell"].endswith("lower") else "D1")
                use = rec.pop("use", "bad:none")
                ev.append({"op": op, "obs": {"done": done, "rec": rec, "files": "some" if os.listdir(path) else "none", "use": use}})
            finally:
                shutil.rmtree(tmp, ignore_errors=True)
        return ev


PROP = C18
