"""SYS - the composite specification as generator (spec: FsSystem).  Not a listed property of its own: the checks of
C03, C04, C07, C13, C15 and C16 run its behaviours and each reports the violations that belong to it (see attribute()).

After every operation the driver observes the whole projected state through BOTH connections: conn.schema and
CURRENT_SCHEMA(), the value of the session variable, and the contents of both tables (read fully qualified)."""
from __future__ import annotations

from harness.core import Prop

OK_STATUS = [("Statement executed successfully.",)]
_FS = None
_N = 0
NOP_PATTERN = r"^call\s+vt_refresh"


def _err(e) -> str:
    import snowflake.connector.errors as sferr

    if isinstance(e, sferr.ProgrammingError):
        msg = str(getattr(e, "msg", "") or e)
        if "Session variable" in msg and "does not exist" in msg:
            return "err:novar"
        if "already exists" in msg:
            return "err:exists"
        if (e.errno, e.sqlstate) in ((2003, "42S02"), (2043, "02000")):
            return "err:missing"
        return f"perr:{e.errno}/{e.sqlstate}"
    return f"exc:{type(e).__name__}"


class SYS(Prop):
    id = "SYS"
    gen_module = "FsSystemGen"
    judge_module = "FsSystemJudge"
    assumptions = [
        "two connections of one instance (made with a no-op pattern), one database, two schemas with a table T each; each "
        "connection writes its own values; nobody writes while the other connection has a transaction open (READ COMMITTED "
        "and the engine's snapshot isolation are then indistinguishable: known finding C13.reader_transaction_snapshot)",
    ]

    def consts(self, tier):
        return {"Conn": {"c1", "c2"}, "ScriptsUsed": True, "TgtUsed": {"u", "S1", "S2"}, "Feat": {"cur", "ddl", "dml2"}}

    def model_checks(self, tier):
        big = tier == "thorough"
        c = {"Conn": {"c1", "c2"}, "ScriptsUsed": False, "TgtUsed": {"u", "S2"}, "Feat": set(), "Devs": set(),
             "Depth": 7 if big else 5, "MaxFails": 99, "SampleOneIn": 1}
        d = 6 if big else 4
        return [
            dict(name="sys_mc", module="FsSystemGen", consts=c, invariants=["StepInv"], constraint="Bound", view="ViewSt", timeout=1500),
            dict(name="sys_mc_scripts", module="FsSystemGen", consts=dict(c, ScriptsUsed=True, TgtUsed={"u"}, Feat={"ddl"}, Depth=3),
                 invariants=["StepInv"], constraint="Bound", view="ViewSt", timeout=1500),
            dict(name="sys_mc_cursor", module="FsSystemGen", consts=dict(c, TgtUsed={"u"}, Feat={"cur"}, Depth=d + 1),
                 invariants=["StepInv"], constraint="Bound", view="ViewSt", timeout=1500),
            dict(name="sys_mc_ddl", module="FsSystemGen", consts=dict(c, Feat={"ddl"}, Depth=d),
                 invariants=["StepInv"], constraint="Bound", view="ViewSt", timeout=1500),
            dict(name="sys_mc_persist", module="FsSystemGen", consts=dict(c, Feat={"ddl", "persist"}, Depth=d),
                 invariants=["StepInv"], constraint="Bound", view="ViewSt", timeout=1500),
            dict(name="sys_mc_all", module="FsSystemGen", consts=dict(c, Feat={"cur", "ddl", "dml2"}, Depth=d),
                 invariants=["StepInv"], constraint="Bound", view="ViewSt", timeout=1500),
        ]

    def generations(self, tier, seed):
        big = tier == "thorough"
        base = {"Conn": {"c1", "c2"}, "ScriptsUsed": True, "TgtUsed": {"u", "S1", "S2"}, "Feat": {"cur", "ddl", "dml2"},
                "Devs": set(), "MaxFails": 3, "SampleOneIn": 1}
        return [
            dict(name="sys_walks", module="FsSystemGen", mode="walks", depth=14, num=6000 if big else 400, consts=dict(base, Depth=14)),
            dict(name="sys_walks_long", module="FsSystemGen", mode="walks", depth=30, num=1500 if big else 60, seed_offset=3,
                 consts=dict(base, Depth=30, MaxFails=6)),
            dict(name="sys_paths", module="FsSystemGen", mode="paths", sample=20000 if big else 800,
                 consts=dict(base, ScriptsUsed=False, TgtUsed={"u"}, Feat=set(), MaxFails=1, Depth=3)),
            dict(name="sys_paths_feat", module="FsSystemGen", mode="paths", sample=20000 if big else 800,
                 consts=dict(base, ScriptsUsed=False, TgtUsed={"u"}, MaxFails=1, Depth=3)),
            dict(name="sys_walks_persist", module="FsSystemGen", mode="walks", depth=18, num=2000 if big else 150, seed_offset=5,
                 consts=dict(base, Feat={"cur", "ddl", "dml2", "persist"}, Depth=18)),
        ]

    def nontrivial(self, ops):
        return len({o["k"] for o in ops}) >= 3

    # ------------------------------------------------------------------------------------------------ driving
    def drive(self, ops, rng):
        import fakesnow

        global _FS, _N
        # a behaviour whose first item is the marker {"k": "_via", "via": "http"} is driven through fakesnow's HTTP server with
        # the real Snowflake connector (two logins to the shared instance) - C17: "for statements of every kind"
        http = bool(ops) and ops[0].get("k") == "_via" and ops[0].get("via") == "http"
        ops = [o for o in ops if o.get("k") != "_via"]
        if http:
            import fakesnow.server

            from harness import srv

            fs = fakesnow.server.shared_fs
        else:
            if _FS is None:
                _FS = fakesnow.instance.FakeSnow(nop_regexes=[NOP_PATTERN])
            fs = _FS
        _N += 1
        phys = {"S1": f"A{_N}", "S2": f"B{_N}"}
        back = {v: k for k, v in phys.items()}
        persist = any(o.get("k") == "restart" for o in ops)
        pdir = None
        if persist:
            # an instance of its own that keeps its databases under a db_path (C18): "restart" shuts it down and opens it again
            import tempfile

            pdir = tempfile.mkdtemp(prefix="vt_sys_")
            fs = fakesnow.instance.FakeSnow(db_path=pdir, nop_regexes=[NOP_PATTERN])
        setup = fs.connect("DB1", phys["S1"])
        sc = setup.cursor()
        sc.execute(f"create schema if not exists DB1.{phys['S2']}")
        for p in phys.values():
            sc.execute(f"create table DB1.{p}.t (v int)")
        if persist:
            setup.close()
        conns, longcur, rescur, probe = {}, {}, {}, {}

        def open_sessions():
            for c in ("c1", "c2"):
                conns[c] = srv.connect("shared", "DB1", phys["S1"]) if http else fs.connect("DB1", phys["S1"])
                longcur[c] = conns[c].cursor()
                rescur[c] = conns[c].cursor()       # holds the open result of "sel"; used for nothing else
                probe[c] = conns[c].cursor()

        open_sessions()

        def sql_of(a, bound):
            """SQL text (and parameters) of a single statement"""
            k = a["k"]
            if k == "use":
                return f"use schema {phys[a['s']]}", None
            if k == "set":
                return f"set n = {a['v']}", None
            if k == "unset":
                return "unset n", None
            if k in ("ins", "del"):
                tgt = "t" if a["tgt"] == "u" else f"db1.{phys[a['tgt']]}.t"
                val, params = ("$n", None) if a["src"] == "var" else (("%s", (a["v"],)) if bound else (str(a["v"]), None))
                return (f"insert into {tgt} values ({val})" if k == "ins" else f"delete from {tgt} where v = {val}"), params
            if k in ("upd", "ins2", "delall", "mk", "rm", "sel"):
                tgt = ("t" if k not in ("mk", "rm") else "u") if a["tgt"] == "u" else f"db1.{phys[a['tgt']]}.{'u' if k in ('mk', 'rm') else 't'}"
                if k == "upd":
                    return (f"update {tgt} set v = %s where v = %s", (a["w"], a["v"])) if bound else (f"update {tgt} set v = {a['w']} where v = {a['v']}", None)
                if k == "ins2":
                    own = (1, 2) if a["c"] == "c1" else (3, 4)
                    return (f"insert into {tgt} values (%s), (%s)", own) if bound else (f"insert into {tgt} values ({own[0]}), ({own[1]})", None)
                if k == "delall":
                    return f"delete from {tgt}", None
                if k == "mk":
                    # (each connection creates U with its own shape: one column / two columns)
                    return f"create table {'if not exists ' if a['soft'] else ''}{tgt} ({'v int' if a['c'] == 'c1' else 'v int, w int'})", None
                if k == "rm":
                    return f"drop table {'if exists ' if a['soft'] else ''}{tgt}", None
                return f"select v from {tgt} order by v", None
            if k == "fail":
                return {"notable": "select * from vt_no_such_table", "nocol": "select vt_no_such_column from t",
                        "nosch": "select * from db1.vt_no_such_schema.t", "arity": "insert into t values (7, 8)",
                        "ragged": "insert into t values (7), (8, 9)"}[a["why"]], None
            if k == "nop":
                # (the server's instance has no no-op patterns: a statement fakesnow itself answers without the engine)
                return ("alter table t cluster by (v)" if http else "call vt_refresh()"), None
            raise KeyError(k)

        def outcome(a, cur):
            rows = cur.fetchall()
            k = a["k"]
            if k in ("ins", "del", "ins2", "delall", "upd"):
                n = rows[0][0] if len(rows) == 1 and len(rows[0]) == (2 if k == "upd" else 1) else None
                return f"count:{n}" if n is not None and cur.rowcount == n else f"badcount:rows={rows!r}/rowcount={cur.rowcount}"
            if k in ("mk", "rm"):          # the DDL status line (its wording is C04's business): one row, one text column
                return "ok" if len(rows) == 1 and len(rows[0]) == 1 and isinstance(rows[0][0], str) else f"badstatus:{rows!r}"[:80]
            return "ok" if rows == OK_STATUS else f"badstatus:{rows!r}"[:80]

        def snapshot():
            ctx, var, vis, cat = [], [], [], []
            for c in ("c1", "c2"):
                p = probe[c]
                rep = back.get(conns[c].schema, str(conns[c].schema))
                try:
                    p.execute("select current_schema()")
                    eff = p.fetchall()[0][0]
                    eff = back.get(eff, str(eff))
                except Exception as e:
                    eff = _err(e)
                ctx.append([rep, eff])
                try:
                    p.execute("select $n")
                    v = p.fetchall()[0][0]
                    var.append(int(v) if isinstance(v, int) or (isinstance(v, str) and v.lstrip("-").isdigit()) else -99)
                except Exception as e:
                    var.append(0 if _err(e) == "err:novar" else -98)
                seen = []
                for s in ("S1", "S2"):
                    try:
                        p.execute(f"select v from db1.{phys[s]}.t order by v")
                        seen.append([int(r[0]) for r in p.fetchall()])
                    except Exception:
                        seen.append([-1])
                vis.append(seen)
                views = []
                for q in ("select table_schema from db1.information_schema.tables where table_name = 'U' order by 1",
                          "select schema_name from duckdb_tables() where database_name = 'DB1' and table_name = 'U' order by 1"):
                    try:
                        p.execute(q)
                        views.append(sorted(back.get(r[0], str(r[0])) for r in p.fetchall()))
                    except Exception as e:
                        views.append([_err(e)])
                usable = []
                for s in ("S1", "S2"):
                    try:
                        p.execute(f"select * from db1.{phys[s]}.u")
                        d = p.description
                        usable.append(f"{s}:{len(d) if d is not None else 'nodescr'}" if p.fetchall() == [] else "rows?")
                    except Exception as e:
                        if _err(e) != "err:missing":
                            usable.append(_err(e))
                views.append(usable)
                cat.append(views)
            return {"ctx": ctx, "var": var, "vis": vis, "cat": cat}

        ev = []
        for op in ops:
            # the form is the driver's choice (see WithConn in the specification); recorded with the operation
            op = dict(op)
            if op["k"] in ("ins", "del") and op.get("src") == "lit":
                op["how"] = rng.choice(("x", "s", "b"))
            elif op["k"] in ("upd", "ins2"):
                op["run"] = rng.choice(("x", "s", "b"))
            elif op["k"] in ("sel", "fetch", "restart", "emfail"):
                pass
            elif op["k"] not in ("script", "descr", "begin", "commit", "rollback"):
                op["how"] = rng.choice(("x", "x", "s"))
            op["u"] = rng.choice((1, 2))
            k, c = op["k"], op["c"]
            conn = conns[c]
            res, got = [], []
            try:
                if k == "restart":
                    for cn in conns.values():
                        cn.close()
                    fs.duck_conn.close()
                    # (everything the sessions name exists on disk: whether the new instance may create schemas is immaterial)
                    op["cs"] = rng.choice((True, False))
                    fs = fakesnow.instance.FakeSnow(db_path=pdir, nop_regexes=[NOP_PATTERN], create_schema_on_connect=op["cs"])
                    open_sessions()
                    res = ["ok"]
                elif k == "emfail":
                    cur = longcur[c] if op["u"] == 1 else conn.cursor()
                    tgt = "t" if op["tgt"] == "u" else f"db1.{phys[op['tgt']]}.t"
                    try:
                        cur.executemany(f"insert into {tgt} values (%s)", [(98, 99), (97,)])
                        res = ["ok?"]
                    except Exception as e:
                        res = ["err:other" if not _err(e).startswith("err:") else _err(e)]
                elif k == "sel":
                    cur = rescur[c]
                    cur.execute(sql_of(op, False)[0])
                    res = [f"count:{cur.rowcount}"]
                elif k == "fetch":
                    cur = rescur[c]
                    if op["how"] == "one":
                        row = cur.fetchone()
                        rows = [] if row is None else [row]
                        res = ["none" if row is None else "rows"]
                    else:
                        rows = cur.fetchmany(2) if op["how"] == "many2" else cur.fetchall()
                        res = ["rows" if isinstance(rows, list) else f"badrows:{type(rows).__name__}"]
                    got = [int(r[0]) if len(r) == 1 else -1 for r in rows]
                elif k == "script":
                    text = ";\n".join(sql_of(dict(a, c=c), False)[0] for a in op["items"])
                    curs = list(conn.execute_string(text))
                    res = [outcome(a, cu) for a, cu in zip(op["items"], curs)]
                    if len(curs) != len(op["items"]):
                        res = [f"cursors:{len(curs)}"]
                elif k in ("commit", "rollback") and op["api"] == "conn":
                    getattr(conn, k)()
                    res = ["api"]
                elif k in ("begin", "commit", "rollback"):
                    cur = longcur[c] if op["u"] == 1 else conn.cursor()
                    cur.execute(k)
                    rows = cur.fetchall()
                    res = ["ok" if rows == OK_STATUS else "none" if rows == [] else "badstatus"]
                elif k == "descr":
                    cur = longcur[c]
                    d = cur.description        # reading description: nothing may change (whatever it returns)
                    res = ["ok" if d is None or isinstance(d, list) else "baddescr"]
                else:
                    how = op.get("run") or op.get("how", "x")
                    sql, params = sql_of(op, how == "b")
                    if how == "s":
                        (cur,) = list(conn.execute_string(sql))
                    else:
                        cur = longcur[c] if op["u"] == 1 else conn.cursor()
                        cur.execute(sql, params) if params else cur.execute(sql)
                    res = [outcome(op, cur)]
            except Exception as e:
                res = [_err(e)]
                if k == "fail" and op.get("why") == "ragged" and res != ["err:missing"]:
                    res = ["err:other"]
            ev.append({"op": op, "obs": {"res": res, "got": got, "snap": snapshot()}})
        for cn in conns.values():
            try:
                cn.rollback()
            except Exception:
                pass
        if http:
            for cn in conns.values():
                try:
                    cn.close()
                except Exception:
                    pass
        if persist:
            import shutil

            for cn in conns.values():
                try:
                    cn.close()
                except Exception:
                    pass
            fs.duck_conn.close()
            shutil.rmtree(pdir, ignore_errors=True)
            return ev
        for p in phys.values():
            fs.duck_conn.cursor().execute(f"drop schema if exists DB1.{p} cascade")
        return ev


class SYSHTTP(SYS):
    """the same specification; walks only (they are driven twice: over HTTP and in process - core.system_run_http)"""

    def model_checks(self, tier):
        return [m for m in super().model_checks(tier) if m["name"] == "sys_mc_all"]

    def generations(self, tier, seed):
        big = tier == "thorough"
        base = {"Conn": {"c1", "c2"}, "ScriptsUsed": True, "TgtUsed": {"u", "S1", "S2"}, "Feat": {"cur", "ddl", "dml2"},
                "Devs": set(), "MaxFails": 3, "SampleOneIn": 1}
        return [dict(name="sys_walks", module="FsSystemGen", mode="walks", depth=14, num=6000 if big else 400, sample=1200 if big else 120,
                     consts=dict(base, Depth=14))]


class SYSPERSIST(SYS):
    """the same specification; only the walks on an instance with a db_path that is shut down and opened again (C18)"""

    def model_checks(self, tier):
        return [m for m in super().model_checks(tier) if m["name"] == "sys_mc_persist"]

    def generations(self, tier, seed):
        return [g for g in super().generations(tier, seed) if g["name"] == "sys_walks_persist"]


# ------------------------------------------------------------------------------------------------ attribution
def attribute(ops: list[dict], verdict: dict) -> str:
    """which property does a rejected step belong to?  By the observation field that differs from the closest allowed
    observation, and by the kind of the operation."""
    at = verdict["at"]
    op = ops[at - 1] if 0 < at <= len(ops) else {}
    got = verdict.get("got") or {}
    wants = verdict.get("want") or []
    if "implementation raised" in got or not wants:
        diff = {"res"}
    else:
        def d(w):
            out = set()
            if w.get("res") != got.get("res"):
                out.add("res")
            if w.get("got") != got.get("got"):
                out.add("got")
            for f in ("ctx", "var", "vis", "cat"):
                if (w.get("snap") or {}).get(f) != (got.get("snap") or {}).get(f):
                    out.add(f)
            return out
        diff = min((d(w) for w in wants), key=len)
    k = op.get("k")
    kinds = {k} | ({a["k"] for a in op.get("items", [])} if k == "script" else set())
    intx = any(o["k"] == "begin" for o in ops[:at])
    if any(o.get("k") == "restart" for o in ops[:at]):
        # at or after the shut-down and re-opening of an instance on a db_path: what the new sessions report is C03's (set at
        # connect), everything else - what is found on disk, and whether it can be used - is C18's
        return "C03" if diff == {"ctx"} else "C18"
    if "vis" in diff and any(o.get("k") == "emfail" for o in ops[:max(at - 1, 0)]):
        return "C13"            # after a failed executemany: a transaction opened (or closed) behind the caller's back
    if k == "script":
        return "C16"
    if k == "nop":
        return "C16"
    if k == "fail" or (diff == {"res"} and str((got.get("res") or ["?"])[-1]).startswith(("perr", "exc"))):
        return "C07"
    if k == "descr":
        return "C06"
    if k in ("sel", "fetch") and diff & {"res", "got"}:
        return "C05"
    if "ctx" in diff:
        return "C03"
    if "var" in diff:
        return "C15"
    if k in ("begin", "commit", "rollback"):
        return "C13"
    if k in ("set", "unset"):
        return "C15"
    if k == "use":
        return "C03"
    if k in ("mk", "rm"):
        return "C03" if op.get("tgt") == "u" and _created_elsewhere(got, wants) else "C09"
    if "cat" in diff and "vis" not in diff:
        return "C09"
    if k in ("ins", "del", "upd", "ins2", "delall", "emfail"):
        if op.get("src") == "var" and ("res" in diff) and not intx:
            return "C15"
        if op.get("tgt") == "u" and "vis" in diff and not intx:
            return "C03" if _landed_elsewhere(got, wants) else "C04"
        return "C13" if intx else "C04"
    return "C04"


def _landed_elsewhere(got, wants) -> bool:
    """an unqualified write whose row shows up in the other schema's table: a name-resolution matter"""
    try:
        g = got["snap"]["vis"]
        w = wants[0]["snap"]["vis"]
        return any(len(g[j][0]) + len(g[j][1]) == len(w[j][0]) + len(w[j][1]) and g[j] != w[j] for j in range(2))
    except Exception:
        return False


def _created_elsewhere(got, wants) -> bool:
    """an unqualified CREATE / DROP of U that took effect in the other schema"""
    try:
        g = got["snap"]["cat"]
        w = wants[0]["snap"]["cat"]
        return any(len(g[j][1]) == len(w[j][1]) and g[j][1] != w[j][1] for j in range(2))
    except Exception:
        return False


PROP = SYS
