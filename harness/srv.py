"""Start fakesnow's HTTP server (uvicorn, loopback) in a thread of the current process; one per worker process."""
from __future__ import annotations

import socket
import threading
import time

_STATE = {}


def start():
    if _STATE:
        return _STATE["cfg"]
    import uvicorn

    import fakesnow.server

    s = socket.socket()
    s.bind(("127.0.0.1", 0))
    port = s.getsockname()[1]
    s.close()
    server = uvicorn.Server(uvicorn.Config(fakesnow.server.app, host="127.0.0.1", port=port, log_level="critical"))
    th = threading.Thread(target=server.run, name="fakesnow-server", daemon=True)
    th.start()
    t0 = time.time()
    while not server.started:
        if time.time() - t0 > 30:
            raise RuntimeError("server did not start")
        time.sleep(0.05)
    _STATE["cfg"] = dict(user="fake", password="snow", account="fakesnow", host="127.0.0.1", port=port, protocol="http", network_timeout=3,
                         login_timeout=5)
    _STATE["server"] = server
    return _STATE["cfg"]


def connect(mode: str, database=None, schema=None, path=None):
    import snowflake.connector

    cfg = dict(start())
    params = {"CLIENT_OUT_OF_BAND_TELEMETRY_ENABLED": False}
    if mode == "isolated":
        params["FAKESNOW_DB_PATH"] = ":isolated:"
    elif mode == "path":
        params["FAKESNOW_DB_PATH"] = path
    return snowflake.connector.connect(**cfg, database=database, schema=schema, session_parameters=params)
