"""Run TLC (model checking, generation, judging) and parse what it prints.

Everything TLC tells the harness goes through PrintT lines of the form
    <<"TAG", "<json>">>          (ToJson output, TLA+-escaped)
plus the summary lines TLC itself prints.  Exit codes of TLC are not trusted on their own: the output is parsed.
"""
from __future__ import annotations

import json
import os
import re
import shutil
import subprocess
import tempfile
import time
from dataclasses import dataclass, field

VERIF = os.path.dirname(os.path.dirname(os.path.abspath(__file__)))
SPEC = os.path.join(VERIF, "spec")
WORK = os.path.join(VERIF, ".work")
JAR = "/opt/veriftools/tla/tla2tools.jar:/opt/veriftools/tla/CommunityModules-deps.jar"


class MachineryError(Exception):
    """TLC failed for a reason that is not a verdict (parse error, evaluation error, timeout)."""


@dataclass
class TlcResult:
    out: str
    generated: int = 0
    distinct: int = 0
    depth: int = 0
    violated: list[str] = field(default_factory=list)  # names of violated invariants / properties
    errors: list[str] = field(default_factory=list)
    wall_s: float = 0.0
    prints: dict[str, list] = field(default_factory=dict)  # TAG -> list of decoded json payload tuples
    coverage: dict[str, int] = field(default_factory=dict)  # action name -> count (with -coverage)
    cex: list[str] = field(default_factory=list)  # counterexample state lines


_PR = re.compile(r'^<<"([A-Z]+)"((?:, .*)?)>>$')


def _unescape(s: str) -> str:
    # TLA+ string printed by TLC: backslash escapes for \" and \\ (and \n, \t)
    out = []
    i = 0
    while i < len(s):
        c = s[i]
        if c == "\\" and i + 1 < len(s):
            n = s[i + 1]
            out.append({"n": "\n", "t": "\t", '"': '"', "\\": "\\"}.get(n, "\\" + n))
            i += 2
        else:
            out.append(c)
            i += 1
    return "".join(out)


def _split_items(body: str) -> list:
    """body is ', item, item' where item is a quoted TLA+ string or an integer / TRUE / FALSE."""
    items = []
    i = 0
    n = len(body)
    while i < n:
        if body.startswith(", ", i):
            i += 2
        if i >= n:
            break
        if body[i] == '"':
            j = i + 1
            buf = []
            while j < n:
                if body[j] == "\\":
                    buf.append(body[j : j + 2])
                    j += 2
                    continue
                if body[j] == '"':
                    break
                buf.append(body[j])
                j += 1
            items.append(("s", _unescape("".join(buf))))
            i = j + 1
        else:
            j = body.find(", ", i)
            if j < 0:
                j = n
            tok = body[i:j]
            if tok in ("TRUE", "FALSE"):
                items.append(("b", tok == "TRUE"))
            else:
                try:
                    items.append(("i", int(tok)))
                except ValueError:
                    items.append(("r", tok))
            i = j
    return items


def parse_prints(out: str) -> dict[str, list]:
    res: dict[str, list] = {}
    for line in out.splitlines():
        m = _PR.match(line.strip())
        if not m:
            continue
        tag, body = m.group(1), m.group(2)
        vals = []
        for kind, v in _split_items(body):
            if kind == "s" and v[:1] in "[{\"" or kind == "s" and v in ("true", "false", "null"):
                try:
                    vals.append(json.loads(v))
                    continue
                except Exception:
                    pass
            vals.append(v)
        res.setdefault(tag, []).append(vals)
    return res


def run(
    module: str,
    cfg: str | None = None,
    *,
    workers: int | str = "auto",
    env: dict[str, str] | None = None,
    simulate: str | None = None,
    depth: int | None = None,
    seed: int | None = None,
    coverage: bool = False,
    cont: bool = False,
    deadlock: bool = False,
    timeout: int = 600,
    extra: list[str] | None = None,
    expect_violation: bool = False,
) -> TlcResult:
    os.makedirs(WORK, exist_ok=True)
    meta = tempfile.mkdtemp(prefix="tlc-", dir=WORK)
    cfg = cfg or module + ".cfg"
    cmd = [
        "java",
        "-XX:+UseParallelGC",
        "-Xss16m",
        "-cp",
        JAR,
        "tlc2.TLC",
        "-metadir",
        meta,
        "-noGenerateSpecTE",
        "-config",
        cfg,
        "-workers",
        str(workers),
    ]
    # a fixed fingerprint polynomial: TLC otherwise draws one per run, and with it the order in which BFS meets states - the
    # shortest paths printed for a transition cover would differ from run to run
    cmd += ["-fp", "0"]
    if not deadlock:
        cmd.append("-deadlock")  # -deadlock DISABLES deadlock checking
    if simulate:
        cmd += ["-simulate", simulate]
    if depth is not None:
        cmd += ["-depth", str(depth)]
    if seed is not None:
        cmd += ["-seed", str(seed)]
    if coverage:
        cmd += ["-coverage", "1"]
    if cont:
        cmd.append("-continue")
    if extra:
        cmd += extra
    cmd.append(module + ".tla")
    e = dict(os.environ)
    if env:
        e.update(env)
    t0 = time.time()
    try:
        p = subprocess.run(cmd, cwd=SPEC, env=e, capture_output=True, text=True, timeout=timeout)
    except subprocess.TimeoutExpired as ex:
        subprocess.run(["pkill", "-f", meta], check=False)
        shutil.rmtree(meta, ignore_errors=True)
        raise MachineryError(f"TLC timeout after {timeout}s: {module} {cfg}") from ex
    finally:
        pass
    shutil.rmtree(meta, ignore_errors=True)
    out = p.stdout + p.stderr
    r = TlcResult(out=out, wall_s=time.time() - t0)
    m = None
    for m in re.finditer(r"(\d+) states generated, (\d+) distinct states found", out):
        pass
    if m:
        r.generated, r.distinct = int(m.group(1)), int(m.group(2))
    m = re.search(r"depth of the complete state graph search is (\d+)", out)
    if m:
        r.depth = int(m.group(1))
    r.violated = re.findall(r"Error: Invariant (\S+) is violated", out) + re.findall(
        r"Error: Action property (\S+) is violated", out
    )
    if "Temporal properties were violated" in out:
        r.violated.append("temporal")
    for line in out.splitlines():
        if line.startswith("Error:") and "is violated" not in line and "behavior up to this point" not in line:
            r.errors.append(line)
    if "Parsing or semantic analysis failed" in out or "Error: " in out and "TLC threw an unexpected exception" in out:
        r.errors.append("TLC failure")
    r.prints = parse_prints(out)
    if coverage:
        for mm in re.finditer(r"^<(\w+) line \d+, col \d+ to line \d+, col \d+ of module \w+>: (\d+):(\d+)", out, re.M):
            r.coverage[mm.group(1)] = r.coverage.get(mm.group(1), 0) + int(mm.group(3))
    if r.violated:
        r.cex = [l for l in out.splitlines() if l.startswith(("State ", "/\\ ", "  "))][:400]
    if r.errors and not (expect_violation and r.violated):
        tail = "\n".join(out.splitlines()[-40:])
        raise MachineryError(f"TLC error in {module}/{cfg}: {r.errors[:3]}\n{tail}")
    if not m and not r.prints and not simulate:
        raise MachineryError(f"TLC produced no summary for {module}/{cfg}:\n" + "\n".join(out.splitlines()[-30:]))
    return r
