"""Trace validation of executions nobody generated: the repository's own test-suite, recorded passively
(harness/trace_plugin.py) and judged against the composite specification spec/FakeSnow.tla.

The suite's assertions are weak (one or two values per test); its executions are rich (every statement kind the project
cares about, SQLAlchemy, write_pandas, the HTTP server).  Every clause of the composite specification is evaluated at
every step of every one of them.  A check for property P reports the violations of P's clauses (clause names start with
the property id).

record_suite(repo)        -> traces (one per test), suite summary
judge(traces)             -> {tid: [ {at, clauses} ... ]}
"""
from __future__ import annotations

import glob
import json
import os
import re
import shutil
import subprocess
import tempfile
import time

from . import tlc

VERIF = tlc.VERIF


def record_suite(repo: str, nproc: int = 8, timeout: int = 900, tests: list[str] | None = None):
    """run <repo>/tests under the passive recorder; returns (traces, info)"""
    work = tempfile.mkdtemp(prefix="passive-", dir=_work())
    env = dict(os.environ)
    env.update({"PYTHONPATH": f"{repo}:{VERIF}", "FAKESNOW_VERIF": "trace", "FAKESNOW_VERIF_TRACE": os.path.join(work, "tr"),
                "PYTHONHASHSEED": "0"})
    cmd = ["/venv/bin/python", "-m", "pytest", "-q", "-p", "no:cacheprovider", "-p", "harness.trace_plugin", "--timeout=900",
           "-n", str(nproc)] + (tests or ["tests"])
    t0 = time.time()
    try:
        p = subprocess.run(cmd, cwd=repo, env=env, capture_output=True, text=True, timeout=timeout)
        out = p.stdout + p.stderr
    except subprocess.TimeoutExpired:
        shutil.rmtree(work, ignore_errors=True)
        raise tlc.MachineryError("the repository's test-suite did not finish under the recorder")
    m = re.search(r"(\d+) failed", out)
    failed = int(m.group(1)) if m else 0
    m = re.search(r"(\d+) passed", out)
    passed = int(m.group(1)) if m else 0
    failing = sorted(set(re.findall(r"^FAILED (\S+)", out, re.M)))
    events = []
    for f in glob.glob(os.path.join(work, "tr.*.ndjson")):
        pid = f.rsplit(".", 2)[1]
        with open(f) as fh:
            for line in fh:
                e = json.loads(line)
                e["pid"] = pid
                events.append(e)
    shutil.rmtree(work, ignore_errors=True)
    by_test: dict[str, list] = {}
    for e in events:
        # one trace per (worker process, test): session-scoped fixtures live across the tests of one worker; what they made
        # before a test began is adopted by the specification at first sight
        by_test.setdefault(f"{e['test'] or 'outside-tests'}", []).append(e)
    traces = []
    for tid, evs in sorted(by_test.items()):
        evs.sort(key=lambda e: (e["pid"], e["seq"]))
        for e in evs:
            for k in ("seq", "test", "pid"):
                e.pop(k, None)
        traces.append({"tid": tid, "ev": evs})
    info = {"passed": passed, "failed": failed, "failing": failing, "wall_s": round(time.time() - t0, 1),
            "events": len(events), "tests_with_events": len(traces)}
    return traces, info


def _work():
    os.makedirs(tlc.WORK, exist_ok=True)
    return tlc.WORK


def judge(traces: list[dict], workers: int = 8) -> dict[str, list]:
    if not traces:
        return {}
    import threading

    tag = f"{os.getpid()}_{threading.get_ident() % 100000}_{int(time.time()*1000) % 100000}"
    tf = os.path.join(_work(), f"passive_{tag}.ndjson")
    with open(tf, "w") as f:
        for t in traces:
            f.write(json.dumps({"tid": t["tid"], "ev": t["ev"]}) + "\n")
    cfg = os.path.join(_work(), f"passive_judge_{tag}.cfg")
    with open(cfg, "w") as f:
        f.write("INIT JInit\nNEXT JNext\n")
    r = tlc.run("FakeSnowJudge", cfg, workers=workers, env={"TRACE_FILE": tf}, timeout=900)
    os.remove(tf)
    os.remove(cfg)
    out = {}
    for item in r.prints.get("V", []):
        v = item[0]
        out[v["tid"]] = v["bad"]
    missing = [t["tid"] for t in traces if t["ev"] and t["tid"] not in out]
    if missing:
        raise tlc.MachineryError(f"composite judge gave no verdict for {len(missing)} traces, e.g. {missing[0]}:\n" + r.out[-2000:])
    return out


def corrupt(traces: list[dict], rng) -> list[tuple[dict, str]]:
    """binding self-test: copies of accepted traces with one logged value changed; returns [(trace, what was changed)]"""
    out = []
    cands = [t for t in traces if len(t["ev"]) >= 3]
    rng.shuffle(cands)
    for t in cands:
        ev = json.loads(json.dumps(t["ev"]))
        done = None
        order = list(range(len(ev)))
        rng.shuffle(order)
        for k in order:
            e = ev[k]
            if e["t"] == "fetch" and e["res"] == "rows" and e["f"] in ("all", "one", "many") and any(
                    x["t"] == "exec" and x["k"] == e["k"] and x["cls"] in ("query", "insert", "update", "delete", "merge") and x["res"] == "ok" for x in ev[:k]):
                e["n"] += 1
                done = "fetch.n"
            elif e["t"] == "exec" and e["res"] == "ok":
                e["ss"] = "42S02"
                done = "exec.ss"
            elif e["t"] == "exec" and e["res"] == "err" and e["ek"] == "prog":
                e["db"] = e["db"] + "X"
                done = "exec.db"
            if done:
                break
        if done:
            out.append(({"tid": f"mut-{len(out)}", "ev": ev}, done))
        if len(out) >= 30:
            break
    return out
