"""Shared check pipeline:  model-check  ->  generate behaviours  ->  drive the implementation  ->  judge  ->  verdict.

A property check is a `Prop` subclass (one per property, under /verif/props).  The pipeline is the same for all:

  1. TLC model-checks the ideal specification against the property's invariants (and, for every named deviation,
     checks that the SAME invariants are violated when the deviation is switched on: a deviation is a real violation
     of the property, never a way of loosening the check).
  2. TLC generates behaviours of the ideal specification (transition cover, bounded path cover, random walks).
  3. Python drives each behaviour against the real fakesnow (imported from $VERIF_REPO, default /repo) and records
     one event [op, obs] per public call.
  4. TLC judges every recorded trace against Steps(st, op, D): ideal first, then the smallest set of KNOWN deviations.
  5. ok -> fine; explained only by known deviations -> KNOWN-FINDING; explained by nothing -> VIOLATION + replay file.
"""
from __future__ import annotations

import hashlib
import json
import os
import random
import re
import sys
import time
import traceback
from concurrent.futures import ProcessPoolExecutor

from . import passive, tlc

VERIF = tlc.VERIF
REPO = os.environ.get("VERIF_REPO", "/repo")
NPROC = int(os.environ.get("VERIF_NPROC", "16"))


# ----------------------------------------------------------------------------------------------- cfg rendering
def tla(v) -> str:
    """Python value -> TLA+ constant text."""
    if isinstance(v, bool):
        return "TRUE" if v else "FALSE"
    if isinstance(v, int):
        return str(v)
    if isinstance(v, str):
        return '"' + v.replace("\\", "\\\\").replace('"', '\\"') + '"'
    if isinstance(v, (set, frozenset)):
        return "{" + ", ".join(sorted(tla(x) for x in v)) + "}"
    if isinstance(v, (list, tuple)):
        return "<<" + ", ".join(tla(x) for x in v) + ">>"
    raise TypeError(v)


def write_cfg(
    name: str,
    consts: dict,
    *,
    init="Init",
    next="Next",
    spec=None,
    invariants=(),
    properties=(),
    constraint=None,
    action_constraint=None,
    view=None,
) -> str:
    lines = []
    if spec:
        lines.append(f"SPECIFICATION {spec}")
    else:
        lines += [f"INIT {init}", f"NEXT {next}"]
    if consts:
        lines.append("CONSTANTS")
        for k, v in consts.items():
            lines.append(f"  {k} = {tla(v)}")
    for inv in invariants:
        lines.append(f"INVARIANT {inv}")
    for p in properties:
        lines.append(f"PROPERTY {p}")
    if constraint:
        lines.append(f"CONSTRAINT {constraint}")
    if action_constraint:
        lines.append(f"ACTION_CONSTRAINT {action_constraint}")
    if view:
        lines.append(f"VIEW {view}")
    os.makedirs(tlc.WORK, exist_ok=True)
    path = os.path.join(tlc.WORK, name + ".cfg")
    with open(path, "w") as f:
        f.write("\n".join(lines) + "\n")
    return path


# ----------------------------------------------------------------------------------------------- known findings
def load_findings(prop_id: str) -> list[dict]:
    with open(os.path.join(VERIF, "known_findings.json")) as f:
        data = json.load(f)
    return [x for x in data["findings"] if x["property"] == prop_id]


# ----------------------------------------------------------------------------------------------- driving
def respell(sql: str, mode: str) -> str:
    """change the letter case of everything outside '...', "..." and $$...$$ (keywords and unquoted identifiers)"""
    out, i, n = [], 0, len(sql)
    while i < n:
        c = sql[i]
        if c in "'\"":
            j = i + 1
            while j < n:
                if sql[j] == "\\" and c == "'":
                    j += 2
                    continue
                if sql[j] == c:
                    if j + 1 < n and sql[j + 1] == c:
                        j += 2
                        continue
                    break
                j += 1
            out.append(sql[i:j + 1])
            i = j + 1
        elif c == "%" and (m := re.match(r"%(?:\([^)]*\))?[sd%]", sql[i:])):
            out.append(m.group(0))          # a pyformat placeholder is neither a keyword nor an identifier
            i += len(m.group(0))
        elif sql.startswith("$$", i):
            j = sql.find("$$", i + 2)
            j = n if j < 0 else j + 2
            out.append(sql[i:j])
            i = j
        else:
            out.append(c.upper() if mode == "upper" else c.lower())
            i += 1
    return "".join(out)


# interference run: between the statements of a behaviour, unrelated statements are executed on a sibling cursor of the
# same connection.  They are not events of the trace (stuttering steps of the specification): the recorded trace must
# still be a behaviour of the specification.  Catches state that leaks between cursors / statements of a connection
# (statement caches keyed too coarsely, residue of a failed statement, "last statement" fields kept on the connection).
_NOISE = {"rng": None, "busy": False, "stmts": []}
NOISE_DEFAULT = [
    "select 1",
    "select 'vt' as a, 2 as b union all select 'vu', 3",
    "select * from vt_no_such_table_zz",          # fails (no such table, or no current database)
    "select vt_no_such_function_zz(1)",           # fails in the engine
    "selec vt syntax error",                      # fails in the parser
    "show schemas",
    "describe table vt_no_such_table_zz",         # fails
]


def _install_noise():
    import fakesnow.cursor as fc

    orig = fc.FakeSnowflakeCursor.execute

    def execute(self, command, *a, **kw):
        st = _NOISE
        if st["rng"] is not None and not st["busy"] and st["rng"].random() < 0.6:
            conn = getattr(self, "_conn", None) or getattr(self, "connection", None)
            if conn is not None:
                st["busy"] = True
                try:
                    for _ in range(st["rng"].choice((1, 1, 2))):
                        try:
                            sib = conn.cursor()
                            sib.execute(st["rng"].choice(st["stmts"]))
                            sib.fetchall()
                        except Exception:
                            pass
                finally:
                    st["busy"] = False
        return orig(self, command, *a, **kw)

    fc.FakeSnowflakeCursor.execute = execute


def _worker_init(repo: str, respell_mode: str | None = None):
    import logging

    logging.getLogger("sqlglot").setLevel(logging.ERROR)
    sys.path.insert(0, repo)
    os.environ.setdefault("PYTHONHASHSEED", "0")
    if respell_mode == "noise":
        _install_noise()
        _NOISE["on"] = True
    elif respell_mode:
        # C02's metamorphic re-run: every statement reaches fakesnow in another letter case
        import fakesnow.cursor as fc

        orig = fc.FakeSnowflakeCursor.execute

        def execute(self, command, *a, **kw):
            return orig(self, respell(command, respell_mode) if isinstance(command, str) else command, *a, **kw)

        fc.FakeSnowflakeCursor.execute = execute


def _drive_chunk(args):
    modname, clsname, chunk, seed = args
    import importlib

    mod = importlib.import_module(modname)
    prop = getattr(mod, clsname)()
    prop.assert_repo()
    out = []
    for tid, ops in chunk:
        try:
            if _NOISE.get("on"):
                _NOISE["rng"] = random.Random(f"{seed}-{tid}-noise")
                _NOISE["stmts"] = list(getattr(prop, "noise", None) or NOISE_DEFAULT)
            ev = prop.drive(ops, random.Random(f"{seed}-{tid}"))
            out.append({"tid": tid, "ev": ev})
        except Exception as e:
            # an exception the driver did not expect.  Raised inside the implementation (fakesnow or the libraries under it):
            # the behaviour could not be completed on this tree - a verdict.  Raised by the driver's own code: machinery failure.
            frames = traceback.extract_tb(e.__traceback__)
            where = os.path.realpath(frames[-1].filename) if frames else ""
            key = "error" if where.startswith(os.path.realpath(VERIF) + os.sep) or not frames else "crash"
            out.append({"tid": tid, key: traceback.format_exc(), "ops": ops})
    return out


_SAME = object()


def _corrupt(v, rng: random.Random):
    """A value of the same shape and types as v that differs in one leaf; _SAME when there is nothing to change."""
    if isinstance(v, bool):
        return not v
    if isinstance(v, int):
        return v + 1
    if isinstance(v, str):
        return v + "~" if v else "~"
    if isinstance(v, list):
        idx = list(range(len(v)))
        rng.shuffle(idx)
        if v and rng.random() < 0.3:
            return v[:-1]
        for k in idx:
            new = _corrupt(v[k], rng)
            if new is not _SAME:
                return v[:k] + [new] + v[k + 1 :]
        return _SAME
    if isinstance(v, dict):
        keys = sorted(v)
        rng.shuffle(keys)
        for k in keys:
            new = _corrupt(v[k], rng)
            if new is not _SAME:
                return {**v, k: new}
        return _SAME
    return _SAME


# properties with clauses in the composite specification (spec/FakeSnow.tla): their checks also validate the recorded
# executions of the repository's own test-suite against those clauses (clause names start with the property id)
PASSIVE_PROPS = {"C03", "C04", "C05", "C06", "C07"}


# properties whose checks also replay the behaviours of the composite specification spec/FsSystem.tla (two sessions in which
# context, DML, failures, transactions, variables, scripts and no-op'd statements meet) and report the rejections that
# belong to them (props/sysmodel.py: attribute)
SYSTEM_PROPS = {"C03", "C04", "C05", "C06", "C07", "C09", "C13", "C15", "C16", "C18"}


class Prop:
    id = "C00"
    judge_module = ""
    gen_module = ""
    level = "model_checking"
    assumptions: list[str] = []

    # --- to be provided by subclasses -------------------------------------------------------------------------
    def consts(self, tier: str) -> dict:
        return {}

    def model_checks(self, tier: str) -> list[dict]:
        """dicts: name, consts, invariants, properties, constraint, view, [devs -> expect violation]."""
        return []

    def generations(self, tier: str, seed: int) -> list[dict]:
        """dicts: name, consts, mode in {edges, paths, walks}, depth, [num]."""
        return []

    def drive(self, ops: list[dict], rng: random.Random) -> list[dict]:
        raise NotImplementedError

    def nontrivial(self, ops: list[dict]) -> bool:
        return len(ops) >= 2

    def extra_checks(self, tier: str, seed: int, ctx: "Run") -> None:
        """hook for property-specific additions (e.g. recorded traces of the repository's tests)."""

    # ------------------------------------------------------------------------------------------------------------
    def assert_repo(self):
        import fakesnow

        here = os.path.realpath(fakesnow.__file__)
        if not here.startswith(os.path.realpath(REPO) + os.sep):
            raise tlc.MachineryError(f"fakesnow imported from {here}, expected under {REPO}")


def log(msg: str):
    if os.environ.get("VERIF_QUIET") != "1":
        print(f"[{time.strftime('%H:%M:%S')}] {msg}", file=sys.stderr, flush=True)


class Run:
    """One execution of a property's check (quick or thorough)."""

    def __init__(self, prop: Prop, tier: str, seed: int):
        self.prop, self.tier, self.seed = prop, tier, seed
        self.t0 = time.time()
        self.findings = load_findings(prop.id)
        self.known = sorted(f["name"] for f in self.findings if f.get("status") == "known")
        self.states = self.transitions = 0
        self.mc_log: list[dict] = []
        self.behaviours: dict[str, list] = {}  # tid -> ops
        self.families: dict[str, int] = {}
        self.family_total: dict[str, int] = {}
        self.verdicts: dict[str, dict] = {}
        self.violations: list[dict] = []
        self.dev_hits: dict[str, int] = {}
        self.notes: list[str] = []
        self.extra_cov: dict = {}

    # ---- 1. model checking
    def model_check(self):
        for mc in self.prop.model_checks(self.tier):
            devs = mc.get("devs")
            consts = dict(mc["consts"])
            cfg = write_cfg(
                f"{self.prop.id}_{mc['name']}",
                consts,
                init=mc.get("init", "Init"),
                next=mc.get("next", "Next"),
                invariants=mc.get("invariants", ()),
                properties=mc.get("properties", ()),
                constraint=mc.get("constraint"),
                view=mc.get("view"),
            )
            r = tlc.run(
                mc.get("module", self.prop.gen_module),
                cfg,
                workers=mc.get("workers", NPROC),
                coverage=mc.get("coverage", False),
                timeout=mc.get("timeout", 900),
                expect_violation=bool(devs),
                env=mc.get("env"),
            )
            entry = {
                "name": mc["name"],
                "states": r.distinct,
                "transitions": r.generated,
                "depth": r.depth,
                "violated": r.violated,
                "wall_s": round(r.wall_s, 1),
            }
            if devs:
                # a recorded deviation must violate the property on the model
                entry["expects_violation_of"] = mc.get("expect", [])
                if not r.violated:
                    raise tlc.MachineryError(
                        f"deviation {devs} does not violate any invariant of {mc['name']}: it would loosen the check"
                    )
            else:
                if r.violated:
                    raise tlc.MachineryError(
                        f"ideal specification violates {r.violated} in {mc['name']}:\n" + "\n".join(r.cex[:80])
                    )
                self.states += r.distinct
                self.transitions += r.generated
                if mc.get("coverage"):
                    zero = [a for a in mc.get("actions", []) if r.coverage.get(a, 0) == 0]
                    if zero:
                        raise tlc.MachineryError(f"vacuous model check {mc['name']}: actions never taken: {zero}")
                    entry["action_counts"] = {a: r.coverage.get(a, 0) for a in mc.get("actions", [])}
            self.mc_log.append(entry)
            log(f"model check {mc['name']}: {r.distinct} states, {r.generated} transitions, violated={r.violated}, {r.wall_s:.1f}s")

    # ---- 2. generation
    def generate(self):
        for g in self.prop.generations(self.tier, self.seed):
            mode = g["mode"]
            consts = dict(g["consts"])
            kw = dict(constraint=g.get("constraint", "Bound"))
            sim = None
            if mode == "edges":
                kw.update(view=g.get("view", "ViewSt"), action_constraint=g.get("emit", "EmitAll"))
            elif mode == "paths":
                kw.update(action_constraint=g.get("emit", "EmitAll"))
            elif mode == "walks":
                kw.pop("constraint")       # NextWalk prints each walk itself, once (see WalkEnd in the Gen modules)
                sim = f"num={g['num']}"
            nxt = g.get("next", "NextWalk" if mode == "walks" else "Next")
            cfg = write_cfg(f"{self.prop.id}_{g['name']}", consts, init=g.get("init", "Init"), next=nxt, **kw)
            tseed = (self.seed + g.get("seed_offset", 0)) if (sim or g.get("emit") == "EmitSample") else None
            allb, wall = self._generate_cached(g, cfg, sim, tseed)
            total = len(allb)
            if g.get("sample") and total > g["sample"]:
                # seeded subset of the enumerated behaviours (quick tier); thorough replays all of them
                allb = random.Random(self.seed * 1000003 + len(g["name"])).sample(allb, g["sample"])
            got = len(allb)
            for k, ops in enumerate(allb, 1):
                # a marker the driver strips before driving (never an event): how the whole behaviour is to be run
                self.behaviours[f"{g['name']}-{k}"] = ([g["prefix"]] + ops) if g.get("prefix") else ops
            self.family_total[g["name"]] = total
            self.families[g["name"]] = got
            log(f"generated {g['name']}: {got} behaviours in {wall}")
            if got == 0:
                raise tlc.MachineryError(f"generation {g['name']} produced no behaviour")

    def _generate_cached(self, g, cfg, sim, tseed):
        """behaviours of one generation family.  They are a function of the specification (all of spec/*.tla), the cfg and
        TLC's seed - not of the code under test - so they are kept under .work/gencache and reused while none of those
        changes (the composite specification's walks are shared by several properties' checks)."""
        h = hashlib.sha1()
        for f in sorted(os.listdir(tlc.SPEC)):
            if f.endswith(".tla"):
                with open(os.path.join(tlc.SPEC, f), "rb") as fh:
                    h.update(f.encode() + b"\0" + fh.read())
        with open(cfg, "rb") as fh:
            h.update(fh.read())
        h.update(json.dumps([g.get("module", self.prop.gen_module), sim, g.get("depth"), tseed, g.get("env")], sort_keys=True).encode())
        cdir = os.path.join(tlc.WORK, "gencache")
        os.makedirs(cdir, exist_ok=True)
        cpath = os.path.join(cdir, h.hexdigest() + ".json")
        if os.environ.get("VERIF_NO_GENCACHE") != "1" and os.path.exists(cpath):
            try:
                with open(cpath) as fh:
                    return json.load(fh), "0s (reused: same specification, cfg and seed)"
            except Exception:
                pass
        r = tlc.run(
            g.get("module", self.prop.gen_module),
            cfg,
            workers=1,
            simulate=sim,
            depth=(g.get("depth") + 3) if sim else None,
            seed=tseed,
            timeout=g.get("timeout", 900),
            env=g.get("env"),
        )
        seen = {}
        for item in r.prints.get("B", []):
            ops = item[0]
            key = json.dumps(ops, sort_keys=True)
            if key not in seen and ops:
                seen[key] = ops
        allb = list(seen.values())
        if allb:
            tmp = cpath + f".{os.getpid()}.tmp"
            with open(tmp, "w") as fh:
                json.dump(allb, fh)
            os.replace(tmp, cpath)
        return allb, f"{r.wall_s:.1f}s"

    def add_pinned(self):
        for f in self.findings:
            if f.get("status") == "known" and f.get("history"):
                self.behaviours[f"pinned-{f['name']}"] = f["history"]
            elif f.get("status") == "fixed" and f.get("history") and f.get("pin"):
                # the reproducer of a repaired defect stays in every run: should it return, it is reported again
                self.behaviours[f"pinned-fixed-{f['name']}"] = f["history"]

    # ---- 3. driving
    def drive_all(self, respell_mode: str | None = None, only: list[str] | None = None) -> list[dict]:
        items = [(t, o) for t, o in self.behaviours.items() if only is None or t in only]
        random.Random(self.seed).shuffle(items)
        nchunks = max(1, min(len(items), NPROC * 4))
        chunks = [items[k::nchunks] for k in range(nchunks)]
        modname, clsname = type(self.prop).__module__, type(self.prop).__name__
        traces = []
        with ProcessPoolExecutor(max_workers=NPROC, initializer=_worker_init, initargs=(REPO, respell_mode)) as ex:
            for res in ex.map(_drive_chunk, [(modname, clsname, c, self.seed) for c in chunks]):
                traces += res
        log(f"drove {len(traces)} behaviours")
        bad = [t for t in traces if "error" in t]
        if bad:
            raise tlc.MachineryError(f"driver failed on {len(bad)} behaviours, first:\n{bad[0]['tid']}\n{bad[0]['error']}")
        for t in [t for t in traces if "crash" in t]:
            last = t["crash"].strip().splitlines()[-1][:300]
            ev = [{"op": o, "obs": {}} for o in t["ops"]]
            self.violations.append({"tid": t["tid"], "trace": {"tid": t["tid"], "ev": ev},
                                    "verdict": {"v": "fail", "at": len(ev), "got": {"implementation raised": last},
                                                "want": ["the behaviour runs to its end (every operation returns or raises what the specification names)"]}})
        traces = [t for t in traces if "crash" not in t]
        return traces

    # ---- 4. judging
    def judge(self, traces: list[dict], known: list[str] | None = None) -> dict[str, dict]:
        known = self.known if known is None else known
        os.makedirs(tlc.WORK, exist_ok=True)
        tag = f"{self.prop.id}_{os.getpid()}_{int(time.time()*1000)%100000}"
        tf = os.path.join(tlc.WORK, f"traces_{tag}.ndjson")
        kf = os.path.join(tlc.WORK, f"known_{tag}.json")
        with open(tf, "w") as f:
            for t in traces:
                f.write(json.dumps({"tid": t["tid"], "ev": [{"op": e["op"], "obs": e["obs"]} for e in t["ev"]]}) + "\n")
        with open(kf, "w") as f:
            json.dump({"known": known}, f)
        cfg = write_cfg(f"{self.prop.id}_judge", self.prop.consts(self.tier), init="JInit", next="JNext")
        r = tlc.run(
            self.prop.judge_module,
            cfg,
            workers=int(os.environ.get("VERIF_JUDGE_WORKERS", "8")),
            env={"TRACE_FILE": tf, "KNOWN_FILE": kf},
            timeout=1800,
        )
        log(f"judged {len(traces)} traces in {r.wall_s:.1f}s ({r.distinct} judge states)")
        per: dict[str, list] = {}
        for item in r.prints.get("V", []):
            v = item[0]
            per.setdefault(v["tid"], []).append(v)
        out = {}
        for t in traces:
            vs = per.get(t["tid"])
            if not vs:
                raise tlc.MachineryError(f"judge gave no verdict for trace {t['tid']}:\n" + r.out[-3000:])
            oks = [v for v in vs if v["v"] == "ok"]
            if oks:
                out[t["tid"]] = min(oks, key=lambda v: (len(v["devs"]), v["at"]))
            else:
                out[t["tid"]] = max(vs, key=lambda v: v["at"])
        os.remove(tf)
        os.remove(kf)
        return out

    # ---- 5. verdicts
    def settle(self, traces: list[dict], verdicts: dict[str, dict]):
        by_tid = {t["tid"]: t for t in traces}
        for tid, v in verdicts.items():
            if v["v"] == "ok":
                for d in v["devs"]:
                    self.dev_hits[d] = self.dev_hits.get(d, 0) + 1
            else:
                self.violations.append({"tid": tid, "verdict": v, "trace": by_tid[tid]})
        self.verdicts.update(verdicts)

    def write_replay(self, viol: dict) -> str:
        os.makedirs(os.path.join(VERIF, "replays"), exist_ok=True)
        t = viol["trace"]
        h = hashlib.sha1(json.dumps([e["op"] for e in t["ev"]], sort_keys=True).encode()).hexdigest()[:12]
        path = os.path.join(VERIF, "replays", f"{self.prop.id}-{h}.json")
        with open(path, "w") as f:
            json.dump(
                {
                    "property": self.prop.id,
                    "tier": self.tier,
                    "seed": self.seed,
                    "judge": self.prop.judge_module,
                    "mode": "passive" if viol["tid"].startswith("passive:") else "system" if viol["tid"].startswith("system:") else "noise" if viol["tid"].startswith("noise-") else "plain",
                    "tid": viol["tid"][6:] if viol["tid"].startswith("noise-") else viol["tid"][7:] if viol["tid"].startswith("system:") else viol["tid"],
                    "ops": viol.get("ops") or [e["op"] for e in t["ev"]],
                    "trace": t["ev"],
                    "failed_at": viol["verdict"]["at"],
                    "got": viol["verdict"].get("got"),
                    "want": viol["verdict"].get("want"),
                },
                f,
                indent=1,
            )
        return path

    def evidence(self, traces: list[dict]):
        cov = {
            "states": self.states,
            "transitions": self.transitions,
            "traces_validated_against_impl": len(self.verdicts),
            "events_judged": sum(len(t["ev"]) for t in traces),
            "evaluations": len(self.verdicts),
            "distinct_nontrivial": len(
                {json.dumps(ops, sort_keys=True) for ops in self.behaviours.values() if self.prop.nontrivial(ops)}
            ),
            "rule": "behaviours are generated by TLC from the specification (transition cover, bounded path cover, "
            "random walks, pinned reproducers of known findings); distinct = distinct operation sequences; "
            "non-trivial = per-property rule (default: at least two operations)",
            "families": self.families,
            "families_enumerated_by_tlc": self.family_total,
            "model_checks": self.mc_log,
            "known_deviation_attributions": self.dev_hits,
            "samples": [
                {"tid": t["tid"], "events": t["ev"][:12], "verdict": self.verdicts.get(t["tid"], {}).get("v")}
                for t in traces[:3]
            ],
            "exhaustive": False,
        }
        cov.update(self.extra_cov)
        ev = {
            "property_id": self.prop.id,
            "tier": self.tier,
            "seed": self.seed,
            "level": self.prop.level,
            "coverage": cov,
            "assumptions": self.prop.assumptions
            + [
                "TLC 1.8.0 and the CommunityModules Json/IOUtils operators are trusted",
                "the Python driver/projection is trusted to report what the implementation returned",
                f"fakesnow imported from {REPO} (working tree, nothing cached between runs)",
            ],
            "wall_s": round(time.time() - self.t0, 1),
            "violations": len(self.violations),
            "notes": self.notes,
        }
        # runs against a scratch worktree (seeded changes) must not overwrite the evidence of /repo itself
        evdir = os.path.join(VERIF, "evidence") if os.path.realpath(REPO) == "/repo" and self.prop.id != "SYS" else os.path.join(tlc.WORK, "evidence_alt")
        os.makedirs(evdir, exist_ok=True)
        with open(os.path.join(evdir, f"{self.prop.id}.json"), "w") as f:
            json.dump(ev, f, indent=1, default=str)

    # ---- 6. binding self-test: the judge must notice a corrupted recording
    def binding_selftest(self, traces: list[dict], n: int = 40):
        """Corrupt one observed field (or drop one event) in a sample of accepted traces and judge them again.

        This is evidence that the trace specification constrains what was recorded, not only its length.  A corrupted
        trace may legitimately stay acceptable (a field the specification leaves open, a dropped no-op), so the rates are
        reported; only a judge that accepts *every* corrupted trace is treated as broken machinery.
        """
        rng = random.Random(self.seed * 7919 + 13)
        cands = [
            t for t in traces
            if t["ev"] and self.verdicts.get(t["tid"], {}).get("v") == "ok" and not self.verdicts[t["tid"]]["devs"]
        ]
        if not cands:
            return
        mutated, kinds = [], {}
        for t in rng.sample(cands, min(n, len(cands))):
            ev = json.loads(json.dumps(t["ev"]))
            if len(ev) >= 3 and rng.random() < 0.25:
                k = rng.randrange(len(ev) - 1)
                del ev[k]
                kind = "dropped_event"
            else:
                order = list(range(len(ev)))
                rng.shuffle(order)
                kind = None
                for k in order:
                    new = _corrupt(ev[k]["obs"], rng)
                    if new is not _SAME:
                        ev[k]["obs"] = new
                        kind = "corrupted_field"
                        break
                if kind is None:
                    continue
            tid = f"mut-{len(mutated)}"
            kinds[tid] = kind
            mutated.append({"tid": tid, "ev": ev})
        if not mutated:
            return
        try:
            verdicts = self.judge(mutated)
        except tlc.MachineryError as e:  # a corrupted value the specification cannot even evaluate
            self.extra_cov["binding_selftest"] = {"error": str(e)[:300]}
            return
        res = {"corrupted_field": [0, 0, 0], "dropped_event": [0, 0, 0]}
        for tid, v in verdicts.items():
            slot = 0 if v["v"] != "ok" else (1 if v["devs"] else 2)
            res[kinds[tid]][slot] += 1
        self.extra_cov["binding_selftest"] = {
            k: {"mutants": sum(v), "rejected": v[0], "explained_only_by_a_known_deviation": v[1], "still_accepted": v[2]}
            for k, v in res.items()
        }
        log(f"binding self-test: {self.extra_cov['binding_selftest']}")
        cf = res["corrupted_field"]
        if sum(cf) >= 5 and cf[0] + cf[1] == 0:
            raise tlc.MachineryError("binding self-test: the judge accepted every corrupted trace")

    # ---- 7. interference run (see _install_noise)
    def interference_run(self):
        n = getattr(self.prop, "noise_sample", 0)
        if not n:
            return
        n = n * 4 if self.tier == "thorough" else n
        tids = sorted(t for t in self.behaviours if not t.startswith("pinned-"))
        pick = random.Random(self.seed * 31 + 5).sample(tids, min(n, len(tids)))
        t0 = time.time()
        traces = self.drive_all(respell_mode="noise", only=pick)
        for t in traces:                      # separate identities: the same operations, another execution
            self.behaviours["noise-" + t["tid"]] = self.behaviours[t["tid"]]
            t["tid"] = "noise-" + t["tid"]
        self.settle(traces, self.judge(traces))
        self.families["interference"] = len(traces)
        self.extra_cov["interference_run"] = (
            f"{len(traces)} behaviours driven again with unrelated statements (succeeding and failing) executed on a "
            "sibling cursor of the same connection before ~60% of the statements; judged by the same specification"
        )
        log(f"interference run: {len(traces)} behaviours in {time.time()-t0:.1f}s")

    # ---- 8. trace validation of the repository's own test-suite against the composite specification
    def passive_start(self):
        if self.prop.id not in PASSIVE_PROPS or os.environ.get("VERIF_NO_PASSIVE") == "1":
            return None
        from concurrent.futures import ThreadPoolExecutor

        ex = ThreadPoolExecutor(1)
        return ex.submit(passive.record_suite, REPO, 6)

    def passive_finish(self, fut, only_tests: list[str] | None = None):
        if fut is None:
            return
        t0 = time.time()
        traces, info = fut.result()
        if info["passed"] == 0 or not traces:
            raise tlc.MachineryError(f"recording the repository's test-suite produced nothing: {info}")
        verdicts = passive.judge(traces)
        mine = self.prop.id + "."
        nviol, clause_hits = 0, {}
        for t in traces:
            bad = [b for b in verdicts.get(t["tid"], []) if any(c.startswith(mine) for c in b["clauses"])]
            if not bad:
                continue
            nviol += 1
            first = bad[0]
            cl = sorted(c for c in first["clauses"] if c.startswith(mine))
            for c in cl:
                clause_hits[c] = clause_hits.get(c, 0) + 1
            self.violations.append({
                "tid": "passive:" + t["tid"],
                "trace": {"tid": t["tid"], "ev": [{"op": e, "obs": {}} for e in t["ev"]]},
                "verdict": {"v": "fail", "at": first["at"], "got": {"clauses violated": cl},
                            "want": ["every clause of spec/FakeSnow.tla holds at every step of the recorded execution"]},
            })
        # binding self-test of the composite judge: one logged value changed per trace must be noticed
        muts = passive.corrupt(traces, random.Random(self.seed * 7 + 1))
        rejected = 0
        if muts:
            mv = passive.judge([m for m, _ in muts])
            rejected = sum(1 for m, _ in muts if mv.get(m["tid"]))
            if len(muts) >= 5 and rejected == 0:
                raise tlc.MachineryError("composite judge accepted every corrupted recording")
        self.extra_cov["repository_suite_traces"] = {
            "what": "the repository's own tests recorded passively (one event per public call) and judged step by step "
                    "against the composite specification spec/FakeSnow.tla; this check reports the clauses named " + mine + "*",
            "suite": {k: info[k] for k in ("passed", "failed", "failing", "wall_s")},
            "traces": len(traces), "events": info["events"],
            "traces_violating_a_clause_of_this_property": nviol, "clauses_violated": clause_hits,
            "binding_selftest": {"mutants": len(muts), "rejected": rejected},
            "sample": traces[len(traces) // 2]["ev"][:6],
        }
        self.families["repository_suite"] = len(traces)
        log(f"repository suite: {len(traces)} traces / {info['events']} events judged against FakeSnow.tla, "
            f"{nviol} violate a {mine}* clause ({time.time()-t0:.1f}s after the suite's {info['wall_s']}s)")

    # ---- 9. behaviours of the composite specification (spec/FsSystem.tla)
    def system_run_http(self):
        """C17: the composite specification's walks driven through the HTTP server with the real connector (two logins to the
        shared instance) AND in process.  A step rejected over HTTP in a behaviour that is accepted in process belongs to C17."""
        from props import sysmodel

        t0 = time.time()
        sub = Run(sysmodel.SYSHTTP(), self.tier, self.seed)
        sub.model_check()
        sub.generate()
        for tid in list(sub.behaviours):
            ops = sub.behaviours[tid]
            sub.behaviours["inproc-" + tid] = ops
            sub.behaviours[tid] = [{"k": "_via", "via": "http"}] + ops
        traces = sub.drive_all()
        sub.settle(traces, sub.judge(traces))
        bad = {v["tid"] for v in sub.violations}
        mine = 0
        for v in sub.violations:
            if v["tid"].startswith("inproc-") or ("inproc-" + v["tid"]) in bad:
                continue            # not this property's: the in-process execution is rejected too
            mine += 1
            self.violations.append(dict(v, tid="system:" + v["tid"], ops=sub.behaviours[v["tid"]]))
        self.states += sub.states
        self.transitions += sub.transitions
        self.families.update({k + "_http": n for k, n in sub.families.items()})
        self.families.update({k + "_inproc": n for k, n in sub.families.items()})
        self.extra_cov["system_behaviours_over_http"] = {
            "what": "behaviours of the composite specification spec/FsSystem.tla (two sessions; USE SCHEMA, DML at three qualification "
                    "levels with literals / variables / bound values, UPDATE, multi-row INSERT, DDL, failing statements, transactions, "
                    "SET / UNSET, execute_string scripts, an open result fetched piecemeal while other statements run) driven through "
                    "the HTTP server with the real connector - two logins to the shared instance - and, the same behaviours, in process; "
                    "after every operation the whole projected state is observed through both sessions and judged by TLC; a step "
                    "rejected over HTTP in a behaviour accepted in process is this property's",
            "model_checks": sub.mc_log, "families": sub.families, "traces_judged": len(sub.verdicts),
            "rejected_over_http_only": mine, "rejected_in_process_too": len([t for t in bad if t.startswith("inproc-")]),
            "sample": next((t["ev"][:3] for t in traces if not t["tid"].startswith("inproc-")), []),
        }
        log(f"system behaviours over HTTP: {len(traces)} traces, {mine} rejected over HTTP only ({time.time()-t0:.1f}s)")

    def system_run(self):
        if self.prop.id == "C17" and os.environ.get("VERIF_NO_SYSTEM") != "1":
            return self.system_run_http()
        if self.prop.id not in SYSTEM_PROPS or os.environ.get("VERIF_NO_SYSTEM") == "1":
            return
        from props import sysmodel

        t0 = time.time()
        sub = Run(sysmodel.SYSPERSIST() if self.prop.id == "C18" else sysmodel.SYS(), self.tier, self.seed)
        sub.model_check()
        sub.generate()
        traces = sub.drive_all()
        sub.settle(traces, sub.judge(traces))
        mine, others = 0, {}
        for v in sub.violations:
            ops = [e["op"] for e in v["trace"]["ev"]]
            who = sysmodel.attribute(ops, v["verdict"])
            if who == self.prop.id:
                mine += 1
                v = dict(v, tid="system:" + v["tid"])
                self.violations.append(v)
            else:
                others[who] = others.get(who, 0) + 1
        self.states += sub.states
        self.transitions += sub.transitions
        self.families.update({k: n for k, n in sub.families.items()})
        self.extra_cov["system_behaviours"] = {
            "what": "behaviours of the composite specification spec/FsSystem.tla (two sessions; USE SCHEMA, DML with literals / "
                    "variables / bound values at three qualification levels, UPDATE, multi-row INSERT, DELETE of all rows, DDL on a second "
                    "table seen through information_schema and the engine's catalog, failing statements, BEGIN / COMMIT / ROLLBACK, "
                    "SET / UNSET, execute_string scripts, no-op'd statements, description reads, a result set held open on its cursor "
                    "and fetched piecemeal while all of this goes on, an instance on a db_path shut down and opened again in the "
                    "middle) replayed on the code; after every operation the whole projected state is observed through both "
                    "connections and judged by TLC",
            "model_checks": sub.mc_log, "families": sub.families, "traces_judged": len(sub.verdicts),
            "rejected_steps_attributed_to_this_property": mine, "rejected_steps_attributed_to_other_properties": others,
            "sample": traces[0]["ev"][:4] if traces else [],
        }
        log(f"system behaviours: {len(traces)} traces, {mine} rejections belong to {self.prop.id}, others: {others} ({time.time()-t0:.1f}s)")

    # ---- whole pipeline
    def execute(self) -> int:
        pfut = self.passive_start()
        self.model_check()
        self.generate()
        self.add_pinned()
        traces = self.drive_all()
        self.settle(traces, self.judge(traces))
        if os.environ.get("VERIF_NO_SELFTEST") != "1":
            self.binding_selftest(traces)
        self.interference_run()
        self.prop.extra_checks(self.tier, self.seed, self)
        self.system_run()
        self.passive_finish(pfut)
        self.evidence(traces)
        return self.report()

    def report(self) -> int:
        for f in self.findings:
            if f.get("status") != "known":
                continue
            n = self.dev_hits.get(f["name"], 0)
            if n:
                print(f"KNOWN-FINDING: property={self.prop.id} {f['name']}: {f['what']} [{n} traces]")
            else:
                print(f"STALE-FINDING: property={self.prop.id} {f['name']} no longer reproduces (informational)")
        seen = set()
        for v in self.violations[:20]:
            path = self.write_replay(v)
            if path in seen:
                continue
            seen.add(path)
            vd = v["verdict"]
            print(f"VIOLATION property={self.prop.id} replay={path}")
            print(f"  at step {vd['at']} op={json.dumps(v['trace']['ev'][vd['at']-1]['op'])}")
            print(f"  got  {json.dumps(vd.get('got'))}")
            wants = vd.get("want") or []
            print(f"  want one of {json.dumps(wants[:4])}{' ...' if len(wants) > 4 else ''}")
        print(
            f"{self.prop.id} {self.tier}: states={self.states} transitions={self.transitions} "
            f"traces={len(self.verdicts)} violations={len(self.violations)} wall={time.time()-self.t0:.1f}s"
        )
        return 1 if self.violations else 0

    def replay(self, path: str) -> int:
        with open(path) as f:
            rp = json.load(f)
        # same identity and seed as the recorded run: the driver's and the interference run's random choices are
        # functions of (seed, tid)
        self.seed = rp.get("seed", self.seed)
        if rp.get("mode") == "system":
            from props import sysmodel

            sub = Run(sysmodel.SYSHTTP() if self.prop.id == "C17" else sysmodel.SYSPERSIST() if self.prop.id == "C18" else sysmodel.SYS(),
                      self.tier, self.seed)
            sub.behaviours = {rp.get("tid", "replay"): rp["ops"]}
            traces = sub.drive_all()
            sub.settle(traces, sub.judge(traces))
            for t in traces:
                for k, e in enumerate(t["ev"], 1):
                    print(k, json.dumps(e["op"]), "->", json.dumps(e["obs"]))
            self.violations = [v for v in sub.violations if self.prop.id == "C17"
                               or sysmodel.attribute([e["op"] for e in v["trace"]["ev"]], v["verdict"]) == self.prop.id]
            return self.report()
        if rp.get("mode") == "passive":
            # re-record the one test of the repository's suite and judge it again
            traces, info = passive.record_suite(REPO, 1, tests=[rp["tid"][len("passive:"):] if rp["tid"].startswith("passive:") else rp["tid"]])
            verdicts = passive.judge(traces)
            mine = self.prop.id + "."
            rc = 0
            for t in traces:
                for k, e in enumerate(t["ev"], 1):
                    print(k, json.dumps(e))
                for b in verdicts.get(t["tid"], []):
                    cl = [c for c in b["clauses"] if c.startswith(mine)]
                    if cl:
                        print(f"VIOLATION property={self.prop.id} replay={path}\n  at step {b['at']}: {cl}")
                        rc = 1
            return rc
        self.behaviours = {rp.get("tid", "replay"): rp["ops"]}
        traces = self.drive_all(respell_mode="noise" if rp.get("mode") == "noise" else None)
        self.settle(traces, self.judge(traces))
        for t in traces:
            for k, e in enumerate(t["ev"], 1):
                print(k, json.dumps(e["op"]), "->", json.dumps(e["obs"]))
        return self.report()
