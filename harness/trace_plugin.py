"""Passive recorder: one event per PUBLIC call on fakesnow connections and cursors, written as ndjson.

Used two ways (nothing in /repo is touched; the public classes are wrapped from outside):
  * as a pytest plugin over the repository's own test-suite:
        PYTHONPATH=<tree>:/verif FAKESNOW_VERIF=trace FAKESNOW_VERIF_TRACE=<file prefix> pytest -p harness.trace_plugin tests
    one trace per test (events carry the test's node id);
  * from a driver process: install(sink) / set_label(name).

The recorder only READS plain attributes (rowcount, sqlstate, arraysize, conn.database, conn.schema, is_closed) next to
what the caller asked for; it never executes, fetches or reads description on its own, so a recorded run does exactly what
the unrecorded run does.  Nested public calls (description's helper cursor, describe() = execute + fetchall, write_pandas)
are not events: a per-thread depth counter keeps the outermost call only.  execute_string / executemany are transparent:
the statements they run are ordinary execute events on their own cursors (C16: a script is its statements one by one).

The events are judged by spec/FakeSnow.tla (the composite specification's frame clauses); harness/passive.py drives that.
"""
from __future__ import annotations

import itertools
import json
import os
import threading

_lock = threading.Lock()
_tl = threading.local()
_ids = itertools.count(1)
_state = {"sink": None, "label": "", "seq": 0, "installed": False}


def _depth() -> int:
    return getattr(_tl, "d", 0)


def _emit(ev: dict):
    sink = _state["sink"]
    if sink is None:
        return
    with _lock:
        _state["seq"] += 1
        ev["seq"] = _state["seq"]
        ev["test"] = _state["label"]
        sink.write(json.dumps(ev, default=str) + "\n")
        sink.flush()


def _oid(obj) -> int:
    i = getattr(obj, "_vt_id", None)
    if i is None:
        i = next(_ids)
        try:
            object.__setattr__(obj, "_vt_id", i)
        except Exception:
            pass
    return i


def _s(v) -> str:
    return "" if v is None else str(v)


def _ctx(conn) -> dict:
    try:
        closed = bool(conn.is_closed())
    except Exception:
        closed = False
    return {"db": _s(getattr(conn, "database", None)), "sc": _s(getattr(conn, "schema", None)), "closed": closed}


def _curinfo(cur) -> dict:
    rc = getattr(cur, "rowcount", None)
    return {"ss": _s(getattr(cur, "sqlstate", None)), "rc": -1 if rc is None else int(rc)}


def _conn_of(cur):
    return getattr(cur, "_conn", None) or getattr(cur, "connection", None)


def _made_inside_fakesnow() -> bool:
    """True when a cursor is created by fakesnow's own code (the server's request handler, a helper that then drives the
    cursor through private methods) rather than by the caller: such a cursor may be used in ways the public API does not
    show, so nothing is claimed about it until a public execute is seen on it"""
    import sys

    f = sys._getframe(2)
    while f is not None:
        mod = f.f_globals.get("__name__", "")
        if mod.startswith("fakesnow.") and not (mod == "fakesnow.conn" and f.f_code.co_name == "cursor"):
            return True
        f = f.f_back
    return False


def set_label(label: str):
    with _lock:
        _state["label"] = label


def install(sink):
    """wrap the public classes once; events go to sink (a text file object) from now on"""
    _state["sink"] = sink
    if _state["installed"]:
        return
    _state["installed"] = True
    import fakesnow.conn as fconn
    import fakesnow.cursor as fcur

    from . import classify

    Conn, Cur = fconn.FakeSnowflakeConnection, fcur.FakeSnowflakeCursor

    # ---------------------------------------------------------------- connection
    o_cinit = Conn.__init__

    def c_init(self, *a, **kw):
        _tl.d = _depth() + 1
        try:
            o_cinit(self, *a, **kw)
        finally:
            _tl.d -= 1
        if _depth() == 0:
            _emit({"t": "connect", "c": _oid(self), **_ctx(self), "nop": bool(getattr(self, "nop_regexes", None))})

    Conn.__init__ = c_init

    o_close = Conn.close

    def c_close(self, *a, **kw):
        try:
            return o_close(self, *a, **kw)
        finally:
            if _depth() == 0:
                _emit({"t": "close", "c": _oid(self), **_ctx(self)})

    Conn.close = c_close

    # ---------------------------------------------------------------- cursor
    o_kinit = Cur.__init__

    def k_init(self, *a, **kw):
        o_kinit(self, *a, **kw)
        if _depth() == 0:
            conn = _conn_of(self)
            _emit({"t": "cursor", "k": _oid(self), "c": _oid(conn) if conn is not None else 0,
                   "dict": bool(getattr(self, "_use_dict_result", False)), "internal": _made_inside_fakesnow()})

    Cur.__init__ = k_init

    def wrap_exec(name, via):
        orig = getattr(Cur, name)

        def execute(self, command, *a, **kw):
            if _depth() > 0:
                return orig(self, command, *a, **kw)
            conn = _conn_of(self)
            before = _ctx(conn) if conn is not None else {"db": "", "sc": "", "closed": False}
            ev = {"t": "exec", "k": _oid(self), "c": _oid(conn) if conn is not None else 0, "via": via,
                  "closed": before["closed"], "res": "ok", "ek": "", "errno": 0, "est": ""}
            ev.update(classify.classify(command if isinstance(command, str) else "", conn))
            _tl.d = 1
            try:
                return orig(self, command, *a, **kw)
            except BaseException as e:
                ev["res"] = "err"
                ev.update(classify.error_kind(e))
                raise
            finally:
                _tl.d = 0
                after = _ctx(conn) if conn is not None else before
                ev.update({"db": after["db"], "sc": after["sc"]})
                ev.update(_curinfo(self))
                _emit(ev)

        setattr(Cur, name, execute)

    wrap_exec("execute", "x")
    wrap_exec("describe", "describe")

    def wrap_fetch(name, f):
        orig = getattr(Cur, name)

        def fetch(self, *a, **kw):
            if _depth() > 0:
                return orig(self, *a, **kw)
            conn = _conn_of(self)
            size = 0
            if f == "many":
                size = a[0] if a and a[0] else kw.get("size") or getattr(self, "arraysize", 1)
            ev = {"t": "fetch", "k": _oid(self), "c": _oid(conn) if conn is not None else 0, "f": f,
                  "size": int(size or 0), "res": "rows", "n": 0, "w": -1, "keys": [], "cell": -1, "isdict": False}
            _tl.d = 1
            try:
                out = orig(self, *a, **kw)
                rows = out
                if f == "one":
                    rows = [] if out is None else [out]
                    ev["res"] = "none" if out is None else "rows"
                if f == "pandas":
                    ev["n"] = int(len(out))
                    ev["keys"] = [str(c) for c in out.columns]
                    ev["w"] = len(ev["keys"])
                else:
                    ev["n"] = len(rows)
                    if rows:
                        r0 = rows[0]
                        if isinstance(r0, dict):
                            ev["isdict"] = True
                            ev["keys"] = [str(x) for x in r0.keys()]
                            vals = list(r0.values())
                        else:
                            ev["w"] = len(r0)
                            vals = list(r0)
                        if vals and isinstance(vals[0], int) and not isinstance(vals[0], bool) and 0 <= vals[0] < 2**31:
                            ev["cell"] = vals[0]
                return out
            except BaseException as e:
                msg = str(e)
                ev["res"] = "noresult" if "No open result set" in msg else "err"
                raise
            finally:
                _tl.d = 0
                ev.update(_curinfo(self))
                _emit(ev)

        setattr(Cur, name, fetch)

    wrap_fetch("fetchone", "one")
    wrap_fetch("fetchmany", "many")
    wrap_fetch("fetchall", "all")
    wrap_fetch("fetch_pandas_all", "pandas")

    o_descr = Cur.description

    def descr_get(self):
        if _depth() > 0:
            return o_descr.fget(self)
        conn = _conn_of(self)
        ev = {"t": "descr", "k": _oid(self), "c": _oid(conn) if conn is not None else 0, "res": "ok", "names": []}
        _tl.d = 1
        try:
            out = o_descr.fget(self)
            if out is None:
                ev["res"] = "none"
            else:
                ev["names"] = [str(m.name) for m in out]
            return out
        except BaseException:
            ev["res"] = "err"
            raise
        finally:
            _tl.d = 0
            ev.update(_curinfo(self))
            _emit(ev)

    Cur.description = property(descr_get)


# -------------------------------------------------------------------------------------------- pytest plugin part
def _open_sink():
    prefix = os.environ.get("FAKESNOW_VERIF_TRACE")
    if os.environ.get("FAKESNOW_VERIF") != "trace" or not prefix:
        return None
    return open(f"{prefix}.{os.getpid()}.ndjson", "a")


def pytest_configure(config):
    sink = _open_sink()
    if sink is not None:
        install(sink)


def pytest_runtest_logstart(nodeid, location):
    set_label(nodeid)


def pytest_runtest_logfinish(nodeid, location):
    set_label("")
