"""Transparent proxy around the DuckDB connection of a FakeSnow instance.

fakesnow reaches the engine only through `fs.duck_conn.cursor()` and the `execute()` of the objects that returns, so
replacing `fs.duck_conn` gives the grain the properties talk about ("the individual engine calls"): every execute() is
counted, and a hook can run before it (kill the process for C18, hand the turn to another thread for C19).
No source hook in /repo is needed."""
from __future__ import annotations


FETCHES = ("fetchall", "fetchone", "fetchmany", "fetch_arrow_table", "fetch_record_batch", "fetchdf", "fetchnumpy", "arrow", "df", "pl")


class Counter:
    def __init__(self, before=None, fetch_points=False):
        self.fetch_points = fetch_points      # also count (and hook) the calls that collect the result of the last execute
        self.n = 0
        self.log = []
        self.before = before          # callable(index, sql, owner) invoked before every engine call

    def tick(self, sql, owner):
        self.n += 1
        self.log.append((self.n, owner, str(sql)[:80]))
        if self.before is not None:
            self.before(self.n, sql, owner)


class EngineProxy:
    def __init__(self, real, counter: Counter, owner="root"):
        object.__setattr__(self, "_real", real)
        object.__setattr__(self, "_counter", counter)
        object.__setattr__(self, "_owner", owner)

    def cursor(self):
        c = self._counter
        c._cursors = getattr(c, "_cursors", 0) + 1
        return EngineProxy(self._real.cursor(), c, owner=getattr(c, "next_owner", None) or f"conn{c._cursors}")

    def execute(self, sql, *args, **kwargs):
        self._counter.tick(sql, self._owner)
        self._real.execute(sql, *args, **kwargs)
        return self

    def __getattr__(self, name):
        attr = getattr(self._real, name)
        if name in FETCHES and self._counter.fetch_points and callable(attr):
            def fetch(*args, **kwargs):
                self._counter.tick(f"<{name}>", self._owner)
                return attr(*args, **kwargs)

            return fetch
        return attr


def install(fs, before=None, fetch_points=False) -> Counter:
    counter = Counter(before, fetch_points)
    fs.duck_conn = EngineProxy(fs.duck_conn, counter)
    return counter
