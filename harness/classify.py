"""Statement classification for the passive recorder - by sqlglot's Snowflake parser, NOT by fakesnow's own key_command.

classify(text, conn) -> {cls, a1, a2}
  cls: use_db | use_schema | drop_db | drop_schema | query | insert | update | delete | merge | other | any
       ("any": nothing is claimed about this statement - it could not be parsed, carries placeholders / variable
        references the parser cannot see through, or the connection has no-op patterns that may swallow it)
  a1, a2: for use_* / drop_*: database and schema named by the statement ("" when not given), folded the Snowflake way
"""
from __future__ import annotations

import re


def _fold(ident) -> str:
    if ident is None:
        return ""
    name = getattr(ident, "name", None)
    if name is None:
        name = str(ident)
    quoted = bool(getattr(ident, "quoted", False)) or bool(getattr(getattr(ident, "this", None), "quoted", False))
    return name if quoted else name.upper()


def _table_parts(node):
    """(catalog, db, name) identifiers of a Table-like node, folded"""
    from sqlglot import exp

    t = node if isinstance(node, exp.Table) else node.find(exp.Table)
    if t is None:
        return "", "", ""
    g = lambda k: _fold(t.args.get(k)) if t.args.get(k) is not None else ""  # noqa: E731
    parts = [x for x in (g("catalog"), g("db"), g("this")) if x]     # sqlglot files a schema's own name under db
    parts = [""] * (3 - len(parts)) + parts
    return parts[0], parts[1], parts[2]


_PYFORMAT = re.compile(r"%\([^)]*\)s|%s")
_PLACEHOLDER = re.compile(r"%\(|%s|\$[A-Za-z_]|\?|identifier\s*\(", re.I)


def classify(text: str, conn) -> dict:
    out = {"cls": "any", "a1": "", "a2": ""}
    if not text or getattr(conn, "nop_regexes", None):
        return out
    try:
        import logging

        import sqlglot
        from sqlglot import exp

        lg = logging.getLogger("sqlglot")
        old = lg.level
        lg.setLevel(logging.ERROR)
        try:
            # client-side placeholders stand for values: any literal will do for telling the statement's class
            stmts = [e for e in sqlglot.parse(_PYFORMAT.sub("NULL", text), read="snowflake") if e is not None]
        finally:
            lg.setLevel(old)
    except Exception:
        return out
    if len(stmts) != 1:
        return out
    e = stmts[0]
    indirect = bool(_PLACEHOLDER.search(text))
    if isinstance(e, exp.Use):
        kind = (e.args.get("kind").name if e.args.get("kind") is not None else "").upper()
        cat, db, name = _table_parts(e)
        if indirect or kind not in ("DATABASE", "SCHEMA"):
            return out            # USE <name> without a kind, USE ROLE / WAREHOUSE, names behind IDENTIFIER(): not claimed
        if kind == "DATABASE":
            return {"cls": "use_db", "a1": name, "a2": ""}
        return {"cls": "use_schema", "a1": db, "a2": name}
    if isinstance(e, exp.Drop):
        kind = (e.args.get("kind") or "").upper()
        if kind in ("DATABASE", "SCHEMA"):
            if indirect:
                return out
            cat, db, name = _table_parts(e)
            if kind == "DATABASE":
                return {"cls": "drop_db", "a1": name, "a2": ""}
            return {"cls": "drop_schema", "a1": db, "a2": name}
        return {"cls": "other", "a1": "", "a2": ""}
    if isinstance(e, (exp.Select, exp.Union, exp.Subquery, exp.Values, exp.Show, exp.Describe)) or (
        isinstance(e, exp.With) and not e.find(exp.Insert, exp.Update, exp.Delete, exp.Merge)
    ):
        # a seeded SAMPLE / RANDOM result has a size, too; nothing about its size is special
        return {"cls": "query", "a1": "", "a2": ""}
    for klass, name in ((exp.Insert, "insert"), (exp.Update, "update"), (exp.Delete, "delete"), (exp.Merge, "merge")):
        if isinstance(e, klass):
            return {"cls": name, "a1": "", "a2": ""}
    if isinstance(e, exp.Command):
        return out                # sqlglot could not structure it (falls back to a raw command)
    return {"cls": "other", "a1": "", "a2": ""}


def error_kind(e: BaseException) -> dict:
    ek = "other:" + type(e).__name__
    try:
        import snowflake.connector.errors as se

        if isinstance(e, se.ProgrammingError):
            ek = "prog"
        elif isinstance(e, se.DatabaseError):
            ek = "db"
    except Exception:
        pass
    errno = getattr(e, "errno", None)
    return {"ek": ek, "errno": int(errno) if isinstance(errno, int) else 0, "est": str(getattr(e, "sqlstate", None) or "")}
