"""Deterministic scheduler for C19: real threads, one runnable at a time, hand-over exactly at engine-call boundaries.

A schedule is [first, p1, p2]: thread `first` (A) runs until it is about to make its p1-th engine call (p1 = 0: never
preempted), then the other thread (B) runs until it is about to make its p2-th engine call (p2 = 0: to completion), then A
runs to completion, then B.  If the thread holding the turn blocks inside the engine on something a parked thread holds,
that is a legal preemption, not a hang: after `patience` seconds the turn is handed over and the switch is recorded."""
from __future__ import annotations

import threading
import time


class Scheduler:
    def __init__(self, first, p1, p2, patience=0.4, deadline=30.0):
        self.cv = threading.Condition()
        self.A, self.B = first, 3 - first
        self.p = {self.A: p1, self.B: p2}
        self.turn = first
        self.calls = {1: 0, 2: 0}
        self.done = {1: False, 2: False}
        self.preempted = {1: False, 2: False}
        self.switches = []
        self.patience, self.deadline = patience, deadline
        self.t0 = time.time()
        self.last_progress = time.time()
        self.hang = False
        self.tid = {}

    def me(self):
        return self.tid[threading.get_ident()]

    def register(self, who):
        self.tid[threading.get_ident()] = who

    def _give(self, to, why):
        self.turn = to
        self.switches.append((to, why))
        self.cv.notify_all()

    def yield_point(self):
        """called by a session thread right before each of its engine calls"""
        who = self.tid.get(threading.get_ident())
        if who is None:
            return
        other = 3 - who
        with self.cv:
            self.calls[who] += 1
            self.last_progress = time.time()
            if self.p[who] and self.calls[who] == self.p[who] and not self.preempted[who] and not self.done[other]:
                self.preempted[who] = True
                self._give(other, f"preempt {who} before call {self.calls[who]}")
            while self.turn != who and not self.done[other]:
                if not self.cv.wait(timeout=self.patience):
                    # the turn holder made no progress: it is blocked inside the engine (or finished): take the turn
                    if time.time() - self.last_progress > self.patience and self.turn != who:
                        self._give(who, f"{self.turn} blocked, turn to {who}")
                    if time.time() - self.t0 > self.deadline:
                        self.hang = True
                        return
            self.last_progress = time.time()

    def start(self, who):
        self.register(who)
        with self.cv:
            while self.turn != who and not self.done[3 - who]:
                if not self.cv.wait(timeout=self.patience) and time.time() - self.last_progress > self.patience:
                    self._give(who, f"{self.turn} idle, turn to {who}")

    def finish(self, who):
        with self.cv:
            self.done[who] = True
            self._give(3 - who, f"{who} finished")
